"""E3: abstract interpreter for line definitions (value functions), their helper
closures and the core methods they call (inlined from the repository's own
source: Field.not_implemented, Field.threshold, Form.threshold, Field.form ...).

Values are the constructor evaluator's concrete values (interp.py) plus symbolic
expressions `E`.  Undecided conditions fork the path; all paths are enumerated by
deterministic replay of decision prefixes.  Per path: guards, ordered reads,
events (issues, form accesses, effects) and one outcome."""
import ast

from .interp import (Interp, Rec, Closure, ClassV, EnumV, EnumMember, Unknown, BoundMethod, Builtin,
                     ExternalV, ModuleV, SolverTok, Scope, Opaque, NativeMethod, DictItems, InterpAbort)
from .src import unparse

MAX_PATHS = 6000
MAX_DEPTH = 14


# ------------------------------------------------------------------ expressions
class E:
    __slots__ = ('op', 'args', 'ty', 'meta', '_key')

    def __init__(self, op, *args, ty=None, meta=None):
        self.op = op
        self.args = args
        self.ty = ty
        self.meta = meta
        self._key = None

    def key(self):
        if self._key is None:
            self._key = f'{self.op}(' + ','.join(vkey(a) for a in self.args) + ')'
        return self._key

    def __repr__(self):
        return self.key()


def vkey(v):
    if isinstance(v, E):
        return v.key()
    if isinstance(v, EnumMember):
        return f'{v.enum.title}.{v.name}'
    if isinstance(v, (list, tuple)):
        return '[' + ','.join(vkey(x) for x in v) + ']'
    if isinstance(v, Rec):
        return f'<{v.cls.name}:{v.attrs.get("_name", "")}>'
    return repr(v)


class Top(E):
    def __init__(self, reason):
        super().__init__('top', reason)


class InputsTok:
    def __init__(self, form):
        self.form = form      # Rec of the owning Form


class ValuesTok:
    def __init__(self, form, raw=False):
        self.form = form
        self.raw = raw        # the PDF filler's value store: full names, membership tests allowed


class FormsMapTok:
    """solver.forms"""


class SymList:
    """[body for idx in range(count) if cond] with a symbolic count."""

    def __init__(self, count, idx, body, cond=None):
        self.count = count
        self.idx = idx
        self.body = body
        self.cond = cond        # filter condition (None = every index)

    oneshot = False       # made by a generator expression: the second consumer finds it empty
    consumed = False

    def guarded_body(self, zero=0):
        if self.cond is None:
            return self.body
        return E('ite', self.cond, self.body, zero, ty=_ty(self.body))


class SymRange:
    def __init__(self, lo, hi):
        self.lo = lo
        self.hi = hi


NUMERIC = ('int', 'float', 'num', 'bool')


def is_sym(v):
    return isinstance(v, E)


def const_like(v):
    return isinstance(v, (int, float, str, bool, type(None), EnumMember))


# ------------------------------------------------------------------ path data
class Read:
    __slots__ = ('kind', 'parts', 'text', 'node', 'rel', 'owner', 'nguards', 'in_loop', 'res', 'atom')

    def __init__(self, kind, parts, text, node, rel, owner, nguards, in_loop):
        self.kind = kind
        self.parts = parts
        self.text = text
        self.node = node
        self.rel = rel
        self.owner = owner
        self.nguards = nguards
        self.in_loop = in_loop
        self.res = None
        self.atom = None


class Outcome:
    def __init__(self, kind, value=None, exc=None, node=None, rel=None, detail='', in_loop=False):
        self.kind = kind          # 'ret' | 'raise'
        self.value = value
        self.exc = exc            # exception class name for 'raise'
        self.node = node
        self.rel = rel
        self.detail = detail
        self.in_loop = in_loop

    @property
    def is_ni(self):
        return self.kind == 'raise' and self.exc == 'FieldNotImplemented'

    def __repr__(self):
        if self.kind == 'ret':
            return f'ret {vkey(self.value)}'
        return f'raise {self.exc} @{self.rel}:{getattr(self.node, "lineno", 0)} {self.detail}'


class Path:
    def __init__(self):
        self.guards = []      # (E, bool, node)
        self.reads = []
        self.events = []      # (kind, data, node, rel)
        self.outcome = None
        self.decisions = []
        self.imprecise = []


class _RaiseSignal(Exception):
    def __init__(self, outcome):
        self.outcome = outcome


class _ReturnSignal(Exception):
    def __init__(self, value):
        self.value = value


class _ContinueSignal(Exception):
    pass


class _BreakSignal(Exception):
    pass


class Budget(Exception):
    pass


# ------------------------------------------------------------------ key handling
def key_parts(v):
    """A subscript key value -> tuple of literal strings and E holes."""
    if isinstance(v, str):
        return (v,)
    if isinstance(v, E) and v.op == 'fstr':
        out = []
        for p in v.args:
            if isinstance(p, str):
                if out and isinstance(out[-1], str):
                    out[-1] += p
                else:
                    out.append(p)
            elif isinstance(p, (int, bool)) and not isinstance(p, bool):
                out.append(str(p))
            else:
                out.append(p)
        return tuple(out)
    return (v,)


def render_parts(parts):
    out = []
    for p in parts:
        if isinstance(p, str):
            out.append(p)
        elif isinstance(p, E) and p.op == 'idx':
            out.append('{' + p.args[0] + '}')
        else:
            out.append('{' + vkey(p) + '}')
    return ''.join(out)


class Resolution:
    def __init__(self):
        self.problems = []     # (rule, message)
        self.form = None       # FormRec
        self.form_name = None
        self.instance = None   # str | E | None
        self.name = None
        self.decl = None       # Rec of the input / field
        self.absent_form = False
        self.open_holes = []
        self.qualified = None


def resolve_key(cat, year, owner_fr, kind, parts):
    """Mirror of FormAccessor.__getitem__ + the solver's name handling, against
    the catalogue.  kind: 'i' | 'v'."""
    r = Resolution()
    lit = ''.join(p if isinstance(p, str) else '\0' for p in parts)
    holes = [p for p in parts if not isinstance(p, str)]
    if '.' not in lit:
        # FormAccessor qualifies with the owning form's name()
        qual = (owner_fr.name + '.',) + tuple(parts)
        lit = owner_fr.name + '.' + lit
        parts = qual
    r.qualified = render_parts(parts)
    if lit.count('.') != 1:
        r.problems.append(('dots', f'key {r.qualified!r} has {lit.count(".")} dots; the solver splits names at exactly one dot'))
        return r
    fpart, npart = lit.split('.')
    # locate holes on either side of the dot
    hole_iter = iter(holes)
    fholes = [next(hole_iter) for _ in range(fpart.count('\0'))]
    nholes = [next(hole_iter) for _ in range(npart.count('\0'))]
    if fpart.count(':') > 1:
        r.problems.append(('colons', f'form part of {r.qualified!r} has more than one colon'))
        return r
    if ':' in fpart:
        fname, inst = fpart.split(':')
    else:
        fname, inst = fpart, None
    if '\0' in fname:
        r.problems.append(('open-form', f'form name of {r.qualified!r} is not statically known'))
        r.open_holes = fholes
        return r
    r.form_name = fname
    if inst is not None and '\0' in inst:
        if inst != '\0':
            r.problems.append(('open-instance', f'instance of {r.qualified!r} mixes text and a computed part'))
        r.instance = fholes[0]
    else:
        r.instance = inst
    if fname not in cat.form_names(year):
        r.absent_form = True
        return r
    cands = [f for f in cat.forms(year) if f.form_name == fname]
    vi = cands[0].class_attrs.get('valid_instances')
    if vi:
        if isinstance(r.instance, str):
            fr = next((f for f in cands if f.instance == r.instance), None)
            if fr is None:
                r.problems.append(('instance', f'{r.qualified!r}: form {fname} has no instance {r.instance!r} (valid: {vi})'))
                fr = cands[0]
        elif r.instance is None:
            r.problems.append(('instance', f'{r.qualified!r}: form {fname} requires an instance (one of {vi})'))
            fr = cands[0]
        else:
            r.problems.append(('instance', f'{r.qualified!r}: instance of form {fname} is computed, expected one of {vi}'))
            fr = cands[0]
    else:
        fr = cands[0]
        if r.instance is not None and not fr.cls.is_sub_named('InputForm'):
            r.problems.append(('instance', f'{r.qualified!r}: form {fname} is a single-instance form but is addressed with instance {render_parts((r.instance,)) if not isinstance(r.instance, str) else r.instance!r}'))
        if isinstance(r.instance, str) and not r.instance.isdigit():
            r.problems.append(('instance', f'{r.qualified!r}: non-numeric instance {r.instance!r} for form {fname}'))
    r.form = fr
    table = fr.input_map() if kind == 'i' else fr.field_map()
    if '\0' in npart:
        # name with a computed part: expand finite integer ranges
        r.name = npart
        r.open_holes = nholes
        return r
    r.name = npart
    r.decl = table.get(npart)
    if r.decl is None:
        what = 'input' if kind == 'i' else 'line'
        r.problems.append(('undeclared', f'{what} {npart!r} is not declared by form {fname} ({year})'))
    return r


def int_range(e, depth=0):
    """Finite integer range of an expression under the premise that integer
    inputs (counts) are >= 0; (lo, hi) with None = unbounded."""
    if isinstance(e, bool):
        return (int(e), int(e))
    if isinstance(e, int):
        return (e, e)
    if not isinstance(e, E) or depth > 6:
        return (None, None)
    if e.op in ('i', 'v') and e.ty == 'int':
        return (0, None)
    if e.op == 'idx':
        return (0, None)
    if e.op == 'min':
        rs = [int_range(a, depth + 1) for a in e.args]
        los = [r[0] for r in rs]
        his = [r[1] for r in rs if r[1] is not None]
        lo = None if any(l is None for l in los) else min(los)
        return (lo, min(his) if his else None)
    if e.op == 'max':
        rs = [int_range(a, depth + 1) for a in e.args]
        los = [r[0] for r in rs if r[0] is not None]
        his = [r[1] for r in rs]
        hi = None if any(h is None for h in his) else max(his)
        return (max(los) if los else None, hi)
    return (None, None)


# ------------------------------------------------------------------ the evaluator
class LineEval:
    """Evaluates one callable (a line's value function, a PDF value function, a
    needs_filing method ...) over all paths."""

    def __init__(self, cat, year, fr, assume=None, line_oracle=None, fold=True):
        self.cat = cat
        self.ip = cat.interp
        self.year = year
        self.fr = fr                  # owning FormRec
        self.assume = assume or {}
        self.noassume = 0
        self.line_oracle = line_oracle
        self.fold = fold

    # ---- driver
    def run(self, closure, args, label=''):
        paths = []
        stack = [[]]
        truncated = False
        while stack:
            prefix = stack.pop()
            if len(paths) >= MAX_PATHS:
                truncated = True
                break
            p = self._one(closure, args, prefix)
            paths.append(p)
            for k in range(len(prefix), len(p.decisions)):
                stack.append(p.decisions[:k] + [not p.decisions[k]])
        self.truncated = truncated
        return paths

    def _one(self, closure, args, prefix):
        self.path = Path()
        self.prefix = prefix
        self.facts = {}           # cond key -> bool
        self.enum_facts = {}      # atom key -> ('eq', member) | ('ne', set(names))
        self.depth = 0
        self.sites = []
        self.loop_depth = 0
        self.steps = 0
        self.nofork = 0
        try:
            v = self.call_closure(closure, list(args), {}, closure.node, closure.rel)
            self.path.outcome = Outcome('ret', v)
        except _RaiseSignal as r:
            self.path.outcome = r.outcome
        except _ReturnSignal as r:
            self.path.outcome = Outcome('ret', r.value)
        except Budget:
            self.path.outcome = Outcome('ret', Top('budget'))
            self.path.imprecise.append('step budget exceeded')
        return self.path

    # ---- helpers
    def _site(self, node, rel):
        """Events raised inside inlined core methods are reported at the
        innermost call site that lies in a form module."""
        if rel is not None and not rel.startswith('habutax/forms/'):
            for (n2, r2) in reversed(self.sites):
                if r2.startswith('habutax/forms/'):
                    return n2, r2
        return node, rel

    def issue(self, kind, msg, node, rel):
        node, rel = self._site(node, rel)
        self.path.events.append(('issue', (kind, msg), node, rel))

    def event(self, kind, data, node, rel):
        node, rel = self._site(node, rel)
        self.path.events.append((kind, data, node, rel))

    def imprecise(self, why, node=None, rel=None):
        self.path.imprecise.append(f'{why} [{rel}:{getattr(node, "lineno", 0)}]')

    def raise_(self, exc, node, rel, detail=''):
        raise _RaiseSignal(Outcome('raise', exc=exc, node=node, rel=rel, detail=detail, in_loop=self.loop_depth > 0))

    def abort(self, exc, msg, node, rel):
        """An error the definition would hit at run time (AttributeError etc.):
        recorded as an issue and as the path's outcome."""
        self.issue(exc, msg, node, rel)
        self.raise_(exc, node, rel, msg)

    # ---- deciding conditions
    def truth(self, v, node, rel):
        """Python truthiness of a value -> bool, forking when undecided."""
        if isinstance(v, E):
            return self.decide(v, node, rel)
        if isinstance(v, SymList):
            if v.cond is not None:
                return self.truth(self.quant('exists_n', v.idx, v.cond), node, rel)
            return self.decide(E('gt', v.count, 0, ty='bool'), node, rel)
        if isinstance(v, (Rec, Closure, ClassV, EnumV, EnumMember, ModuleV, Builtin, ExternalV, SolverTok, InputsTok, ValuesTok)):
            return True
        if isinstance(v, Unknown):
            return self.decide(Top(v.reason), node, rel)
        return bool(v)

    def decide(self, c, node, rel):
        c, pol = self.norm_cond(c)
        known = self.lookup_fact(c)
        if known is not None:
            return known if pol else not known
        if self.nofork:
            raise _NoForkUndecided(c if pol else E('not', c, ty='bool'))
        idx = len(self.path.decisions)
        if idx < len(self.prefix):
            d = self.prefix[idx]
        else:
            d = True
        self.path.decisions.append(d)
        val = d                      # truth of the *original* condition
        cval = val if pol else not val
        self.record_fact(c, cval)
        self.path.guards.append((c, cval, node, rel))
        return val

    def norm_cond(self, c):
        """-> (canonical condition, polarity)"""
        pol = True
        while isinstance(c, E) and c.op == 'not':
            c = c.args[0]
            pol = not pol
        if isinstance(c, E):
            if c.op == 'gt':
                c = E('lt', c.args[1], c.args[0], ty='bool')
            elif c.op == 'ge':
                c = E('le', c.args[1], c.args[0], ty='bool')
            elif c.op == 'ne':
                c = E('eq', c.args[0], c.args[1], ty='bool')
                pol = not pol
            elif c.op == 'isnot':
                c = E('eq', c.args[0], c.args[1], ty='bool')
                pol = not pol
            elif c.op == 'is':
                c = E('eq', c.args[0], c.args[1], ty='bool')
            if c.op == 'le':
                # a <= b  ==  not (b < a)
                c = E('lt', c.args[1], c.args[0], ty='bool')
                pol = not pol
            if c.op == 'eq' and isinstance(c.args[0], EnumMember) and not isinstance(c.args[1], EnumMember):
                c = E('eq', c.args[1], c.args[0], ty='bool')
        return c, pol

    def lookup_fact(self, c):
        k = vkey(c)
        if k in self.facts:
            return self.facts[k]
        if isinstance(c, E) and c.op == 'eq':
            a, b = c.args
            if isinstance(a, E) and isinstance(b, EnumMember) or (b is None and isinstance(a, E)):
                f = self.enum_facts.get(a.key())
                if f:
                    if f[0] == 'eq':
                        return f[1] == b
                    if (b.name if isinstance(b, EnumMember) else None) in f[1]:
                        return False
                if isinstance(b, EnumMember) and a.ty == 'enum' and a.meta is not None and a.meta[0] is not b.enum:
                    # members of different enumerations never compare equal
                    return False
        return None

    def record_fact(self, c, val):
        self.facts[vkey(c)] = val
        if isinstance(c, E) and c.op == 'eq':
            a, b = c.args
            if isinstance(a, E) and (isinstance(b, EnumMember) or b is None) and a.ty == 'enum':
                k = a.key()
                bname = b.name if isinstance(b, EnumMember) else None
                if val:
                    self.enum_facts[k] = ('eq', b)
                else:
                    f = self.enum_facts.get(k)
                    ex = set(f[1]) if f and f[0] == 'ne' else set()
                    ex.add(bname)
                    enum, may_none = a.meta
                    universe = list(enum.members) + ([None] if may_none else [])
                    left = [m for m in universe if m not in ex]
                    if len(left) == 1:
                        self.enum_facts[k] = ('eq', enum.member(left[0]) if left[0] is not None else None)
                    else:
                        self.enum_facts[k] = ('ne', ex)

    # ---- environment
    def lookup(self, name, env, scope, node, rel):
        for frame in reversed(env):
            if name in frame:
                return frame[name]
        v = self.ip.lookup(name, scope)
        if isinstance(v, Unknown) and v.reason.startswith('unbound name'):
            self.abort('NameError', f'name {name!r} is not defined', node, rel)
        return v

    # ---- calls
    def call_closure(self, clo, args, kwargs, node, rel):
        self.depth += 1
        if self.depth > MAX_DEPTH:
            self.depth -= 1
            self.imprecise('inlining depth exceeded', node, rel)
            return Top('depth')
        self.sites.append((node, rel))
        try:
            fn = clo.node
            a = fn.args
            pos = [x.arg for x in a.posonlyargs + a.args]
            frame = {}
            if len(args) > len(pos) and a.vararg is None:
                self.abort('TypeError', f'{clo.name}() takes {len(pos)} positional arguments but {len(args)} were given', node, rel)
            for n_, v in zip(pos, args):
                frame[n_] = v
            kwonly = [x.arg for x in a.kwonlyargs]
            extra = {}
            for k, v in kwargs.items():
                if k in pos or k in kwonly:
                    if k in frame:
                        self.abort('TypeError', f'{clo.name}() got multiple values for argument {k!r}', node, rel)
                    frame[k] = v
                elif a.kwarg is not None:
                    extra[k] = v
                else:
                    self.abort('TypeError', f'{clo.name}() got an unexpected keyword argument {k!r}', node, rel)
            if a.kwarg is not None:
                frame[a.kwarg.arg] = extra
            if a.vararg is not None:
                frame[a.vararg.arg] = tuple(args[len(pos):])
            for n_ in pos + kwonly:
                if n_ not in frame:
                    if n_ in clo.defaults:
                        frame[n_] = clo.defaults[n_]
                    else:
                        self.abort('TypeError', f'{clo.name}() missing required argument {n_!r}', node, rel)
            ctx = Ctx(clo, [frame])
            if isinstance(fn, ast.Lambda):
                return self.ev(fn.body, ctx)
            try:
                self.block(fn.body, ctx)
            except _ReturnSignal as r:
                return r.value
            return None
        finally:
            self.depth -= 1
            self.sites.pop()

    # ---- statements
    def block(self, stmts, ctx):
        for st in stmts:
            self.stmt(st, ctx)

    def stmt(self, st, ctx):
        self.steps += 1
        if self.steps > 400000:
            raise Budget()
        rel = ctx.rel
        if isinstance(st, ast.Expr):
            if isinstance(st.value, ast.GeneratorExp):
                # a generator expression as a statement is built and thrown away: its body never runs, so the lines it
                # "reads" are not read (and not demanded)
                self.event('exhausted', f'the generator expression `{unparse(st.value, 60)}` stands alone as a statement: nothing iterates it, so what its body reads is never read', st, rel)
            else:
                self.ev(st.value, ctx)
        elif isinstance(st, ast.Assign):
            v = self.ev(st.value, ctx)
            for t in st.targets:
                self.assign(t, v, ctx)
        elif isinstance(st, ast.AnnAssign):
            if st.value is not None:
                self.assign(st.target, self.ev(st.value, ctx), ctx)
        elif isinstance(st, ast.AugAssign):
            cur = self.ev(_as_load(st.target), ctx)
            rhs = self.ev(st.value, ctx)
            if isinstance(cur, list) and isinstance(st.op, ast.Add) and isinstance(rhs, (list, tuple)):
                if not ctx.is_local_obj(cur):
                    self.event('effect', f'in-place += on a non-local list ({unparse(st.target)})', st, rel)
                cur.extend(rhs)
                return
            v = self.binop(st.op, cur, rhs, st, rel)
            self.assign(st.target, v, ctx)
        elif isinstance(st, ast.If):
            t = self.truth(self.ev(st.test, ctx), st.test, rel)
            self.block(st.body if t else st.orelse, ctx)
        elif isinstance(st, ast.For):
            self.for_(st, ctx)
        elif isinstance(st, ast.While):
            self.imprecise('while loop', st, rel)
            self.event('unmodelled', 'while', st, rel)
        elif isinstance(st, ast.Return):
            raise _ReturnSignal(self.ev(st.value, ctx) if st.value is not None else None)
        elif isinstance(st, ast.Pass):
            pass
        elif isinstance(st, ast.Continue):
            raise _ContinueSignal()
        elif isinstance(st, ast.Break):
            raise _BreakSignal()
        elif isinstance(st, ast.Assert):
            t = self.truth(self.ev(st.test, ctx), st.test, rel)
            if not t:
                self.raise_('AssertionError', st, rel, unparse(st.test))
        elif isinstance(st, ast.Raise):
            self.do_raise(st, ctx)
        elif isinstance(st, ast.FunctionDef):
            ctx.env[-1][st.name] = self.ip.make_closure(st, ctx.clo.scope, rel)
            self.imprecise('nested def inside a line definition', st, rel)
        elif isinstance(st, ast.Try):
            self.event('try', 'try statement inside a definition', st, rel)
            self.imprecise('try statement', st, rel)
            self.block(st.body, ctx)
        elif isinstance(st, (ast.Global, ast.Nonlocal)):
            self.event('effect', f'{type(st).__name__.lower()} declaration', st, rel)
        elif isinstance(st, ast.Delete):
            self.event('effect', 'del statement', st, rel)
        else:
            self.event('unmodelled', type(st).__name__, st, rel)
            self.imprecise(f'unmodelled statement {type(st).__name__}', st, rel)

    def do_raise(self, st, ctx):
        rel = ctx.rel
        if st.exc is None:
            self.raise_('re-raise', st, rel)
        f = st.exc.func if isinstance(st.exc, ast.Call) else st.exc
        fv = self.ev(f, ctx)
        name = fv.name if isinstance(fv, (ClassV, Builtin)) else unparse(f)
        if isinstance(st.exc, ast.Call):
            for a in st.exc.args:
                self.ev(a, ctx)      # argument reads still count
            for k in st.exc.keywords:
                self.ev(k.value, ctx)
        self.raise_(name, st, rel, '')

    def assign(self, t, v, ctx):
        rel = ctx.rel
        if isinstance(t, ast.Name):
            ctx.env[-1][t.id] = v
        elif isinstance(t, (ast.Tuple, ast.List)):
            if isinstance(v, (tuple, list)) and len(v) == len(t.elts):
                for e, x in zip(t.elts, v):
                    self.assign(e, x, ctx)
            else:
                for e in t.elts:
                    self.assign(e, Top('unpack'), ctx)
                self.imprecise('tuple unpacking of a symbolic value', t, rel)
        elif isinstance(t, ast.Attribute):
            base = self.ev(t.value, ctx)
            self.event('effect', f'attribute store {unparse(t)} on {type(base).__name__}', t, rel)
            if isinstance(base, Rec):
                pass     # not applied: definitions must be pure; the write is reported
        elif isinstance(t, ast.Subscript):
            base = self.ev(t.value, ctx)
            k = self.ev(t.slice, ctx)
            if isinstance(base, (dict, list)) and ctx.is_local_obj(base) and const_like(k):
                try:
                    base[k] = v
                except Exception:
                    self.imprecise('subscript store failed', t, rel)
            else:
                self.event('effect', f'subscript store {unparse(t)}', t, rel)
        else:
            self.imprecise('assignment target', t, rel)

    def for_(self, st, ctx):
        rel = ctx.rel
        it = self.consume(self.ev(st.iter, ctx), st, rel)
        seq = None
        if isinstance(it, (list, tuple, str, range)):
            seq = list(it)
        elif isinstance(it, dict):
            seq = list(it.keys())
        elif isinstance(it, DictItems):
            seq = list(it.items)
        elif isinstance(it, EnumV):
            seq = [it.member(m) for m in it.members]          # iterating an enumeration class yields its members in definition order
        elif isinstance(it, (InputsTok, ValuesTok)):
            self.event('access', f'iteration over the {"input" if isinstance(it, InputsTok) else "value"} accessor', st, rel)
            return
        elif isinstance(it, FormsMapTok):
            self.event('access', 'iteration over the set of forms the solver has loaded so far (it grows during the solve)', st, rel)
            return
        if seq is not None:
            if len(seq) > 80:
                self.imprecise('long constant loop', st, rel)
                seq = seq[:80]
            for item in seq:
                self.assign(st.target, item, ctx)
                try:
                    self.block(st.body, ctx)
                except _ContinueSignal:
                    continue
                except _BreakSignal:
                    return
            self.block(st.orelse, ctx)
            return
        if isinstance(it, SymRange):
            self.sym_loop(st, it, ctx)
            return
        self.imprecise('loop over a symbolic sequence', st, rel)
        self.event('unmodelled', 'loop over ' + vkey(it), st, rel)

    def sym_loop(self, st, rng, ctx):
        """for n in range(count): body   with symbolic count.  The body is run
        once with n = index hole in guarded (no-fork) mode; accumulations become
        sums, raises/returns become possible events decided at the loop."""
        rel = ctx.rel
        if not isinstance(st.target, ast.Name):
            self.imprecise('symbolic loop with a structured target', st, rel)
            return
        count = rng.hi
        idx = E('idx', st.target.id, count, ty='int')
        before = dict(_flatten_env(ctx.env))
        sym_final = None
        if any(':*.' in a for a in self.assume) and not self.noassume:
            # "some copy's line has this value" is not "every copy's line has it": the body is first run without the
            # assumption, to see which variables merely keep the value of the last round
            saved = [dict(f) for f in ctx.env]
            n_reads, n_events = len(self.path.reads), len(self.path.events)
            self.noassume += 1
            self.loop_depth += 1
            try:
                lb0 = LoopBody(self, ctx, idx, count)
                lb0.run(st.body, st.target.id)
                sym_final = lb0.final
            except Exception:
                sym_final = None
            finally:
                self.noassume -= 1
                self.loop_depth -= 1
                for f, sv in zip(ctx.env, saved):
                    f.clear()
                    f.update(sv)
                del self.path.reads[n_reads:]
                del self.path.events[n_events:]
        lb = LoopBody(self, ctx, idx, count)
        self.loop_depth += 1
        try:
            lb.run(st.body, st.target.id)
        finally:
            self.loop_depth -= 1
        if lb.breaks and (lb.accumulates or any(k == 'return' for (_c, k, _p, _n) in lb.exits)):
            self.event('firstonly', 'the loop over the copies is left with `break` at the first copy that satisfies a condition while amounts are accumulated over the copies visited so far: '
                                    'the copies numbered after that one are dropped, so renumbering changes the total', lb.breaks[0][1], rel)
        if lb.first_only is not None:
            self.event('firstonly', 'every path through the body of the loop over the copies leaves the function in the first round '
                                    f'(`{unparse(lb.first_only, 40)}`): only copy 0 is ever looked at, so which copy carries number 0 decides the result', lb.first_only, rel)
        # early exits, in body order
        for (cond, kind, payload, node) in lb.exits:
            ex = self.quant('exists_n', idx, cond)
            if self.truth(ex, node, rel):
                if kind == 'raise':
                    payload.in_loop = True
                    raise _RaiseSignal(payload)
                raise _ReturnSignal(payload)
        # accumulated state
        for name, newv in lb.final.items():
            old = before.get(name, _MISSING)
            if newv is old:
                continue
            delta = _delta(old, newv)
            if delta is not None and old is not _MISSING:
                tot = E('sumn', count, idx, delta, ty=_num_ty(delta))
                self._set_var(ctx, name, self.binop(ast.Add(), old, tot, st, rel))
            elif sym_final is not None and name in sym_final and old is not _MISSING and _delta(old, sym_final[name]) is None \
                    and _latch(sym_final[name], old, st.target.id) is None and _mentions_assumed(sym_final[name], self.assume):
                # the value of the last round, computed from the assumed line: nothing is known about the last copy
                self._set_var(ctx, name, E('loopval', idx, sym_final[name], old, ty=_ty(sym_final[name])))
            else:
                lat = _latch(newv, old, st.target.id) if old is not _MISSING else None
                if lat is None and old is not _MISSING and not isinstance(newv, E) and sym_final is not None and name in sym_final:
                    # under the assumption the body assigns a constant in every round
                    lat = (True, newv)
                if lat is not None:
                    # a latch: `if cond: flag = X` keeps the earlier value unless some round sets the constant X
                    g, x = lat
                    ex = self.quant('exists_n', idx, g)
                    if x is True and old is False:
                        val = ex
                    elif ex is True or ex is False:
                        val = x if ex else old
                    else:
                        val = E('ite', ex, x, old, ty=_ty(x))
                    self._set_var(ctx, name, val)
                else:
                    # a plain assignment in the body: the value of the last round
                    self._set_var(ctx, name, E('loopval', idx, newv, old if old is not _MISSING else None, ty=_ty(newv)))
        self.block(st.orelse, ctx)

    def quant(self, op, idx, cond):
        """exists_n / forall_n over the rounds of a per-instance loop, with the constant cases folded: some round
        satisfies True exactly when the loop runs at all."""
        count = idx.args[1]
        if op == 'exists_n':
            if cond is True:
                return E('lt', 0, count, ty='bool')
            if cond is False:
                return False
        else:
            if cond is True:
                return True
            if cond is False:
                return E('not', E('lt', 0, count, ty='bool'), ty='bool')
        return E(op, idx, cond, ty='bool')

    def _set_var(self, ctx, name, v):
        for frame in reversed(ctx.env):
            if name in frame:
                frame[name] = v
                return
        ctx.env[-1][name] = v

    # ---- expressions
    def ev(self, n, ctx):
        self.steps += 1
        if self.steps > 400000:
            raise Budget()
        m = getattr(self, 'x_' + type(n).__name__, None)
        if m is None:
            self.imprecise(f'unmodelled expression {type(n).__name__}', n, ctx.rel)
            self.event('unmodelled', type(n).__name__, n, ctx.rel)
            for c in ast.iter_child_nodes(n):
                if isinstance(c, ast.expr):
                    self.ev(c, ctx)
            return Top(type(n).__name__)
        return m(n, ctx)

    def x_Constant(self, n, ctx):
        return n.value

    def x_Name(self, n, ctx):
        return self.lookup(n.id, ctx.env, ctx.clo.scope, n, ctx.rel)

    def x_List(self, n, ctx):
        out = [self.ev(e, ctx) for e in n.elts]
        ctx.local_objs.append(out)
        return out

    def x_Tuple(self, n, ctx):
        return tuple(self.ev(e, ctx) for e in n.elts)

    def x_Set(self, n, ctx):
        return tuple(self.ev(e, ctx) for e in n.elts)

    def x_Dict(self, n, ctx):
        d = {}
        for k, v in zip(n.keys, n.values):
            kv = self.ev(k, ctx) if k is not None else None
            vv = self.ev(v, ctx)
            try:
                d[kv] = vv
            except TypeError:
                self.imprecise('unhashable dict key', n, ctx.rel)
        ctx.local_objs.append(d)
        return d

    def x_Lambda(self, n, ctx):
        self.imprecise('lambda inside a definition', n, ctx.rel)
        return self.ip.make_closure(n, ctx.clo.scope, ctx.rel)

    def x_JoinedStr(self, n, ctx):
        parts = []
        sym = False
        for v in n.values:
            if isinstance(v, ast.Constant):
                parts.append(str(v.value))
                continue
            val = self.ev(v.value, ctx)
            spec = ''
            if v.format_spec is not None:
                spec = self.ev(v.format_spec, ctx)
            if isinstance(val, EnumMember):
                val = val.name if val.enum.via_make else f'{val.enum.title}.{val.name}'
            if isinstance(val, (str, int, float, bool, type(None))) and isinstance(spec, str):
                try:
                    if v.conversion == ord('r'):
                        val = repr(val)
                    parts.append(format(val, spec))
                    continue
                except Exception as e:
                    self.abort(type(e).__name__, f'format failed: {e}', v, ctx.rel)
            if isinstance(val, E) and val.ty == 'int' and val.op != 'idx' and not self.nofork and not spec:
                lo, hi = int_range(val)
                if lo is not None and hi is not None and 0 <= hi - lo <= 8:
                    got = hi
                    for kk in range(lo, hi):
                        if self.decide(E('eq', val, kk, ty='bool'), v, ctx.rel):
                            got = kk
                            break
                    parts.append(str(got))
                    continue
            sym = True
            if spec:
                parts.append(E('format', val, spec, ty='str'))
            elif isinstance(val, E) and val.op == 'fstr' and v.conversion == -1:
                parts.extend(val.args)          # a formatted text inside a formatted text: one flat sequence of parts
            else:
                parts.append(val)
        if not sym:
            return ''.join(parts)
        return E('fstr', *parts, ty='str')

    def x_IfExp(self, n, ctx):
        if self.nofork:
            return self.nofork_expr(n, ctx)
        t = self.truth(self.ev(n.test, ctx), n.test, ctx.rel)
        return self.ev(n.body if t else n.orelse, ctx)

    def x_BoolOp(self, n, ctx):
        if self.nofork:
            return self.nofork_expr(n, ctx)
        last = None
        for v in n.values:
            last = self.ev(v, ctx)
            t = self.truth(last, v, ctx.rel)
            if isinstance(n.op, ast.And) and not t:
                return self._as_bool_result(last, False)
            if isinstance(n.op, ast.Or) and t:
                return self._as_bool_result(last, True)
        return self._as_bool_result(last, isinstance(n.op, ast.And))

    def _as_bool_result(self, v, t):
        # the operand's value decided as truthy/falsy on this path
        if isinstance(v, E) and v.ty in ('bool', None):
            return t
        if isinstance(v, E) and v.op in ('lt', 'le', 'gt', 'ge', 'eq', 'ne', 'in', 'notin', 'is', 'isnot', 'not'):
            return t
        return v

    def x_UnaryOp(self, n, ctx):
        v = self.ev(n.operand, ctx)
        if isinstance(n.op, ast.Not):
            if isinstance(v, E):
                return E('not', v, ty='bool')
            return not self.truth(v, n, ctx.rel)
        if isinstance(v, E):
            if isinstance(n.op, ast.USub):
                return E('neg', v, ty=_num_ty(v))
            return v
        try:
            return -v if isinstance(n.op, ast.USub) else +v
        except Exception as e:
            self.abort('TypeError', f'bad operand for unary op: {e}', n, ctx.rel)

    def x_BinOp(self, n, ctx):
        a = self.ev(n.left, ctx)
        b = self.ev(n.right, ctx)
        return self.binop(n.op, a, b, n, ctx.rel)

    OPS = {ast.Add: 'add', ast.Sub: 'sub', ast.Mult: 'mul', ast.Div: 'div', ast.FloorDiv: 'floordiv', ast.Mod: 'mod', ast.Pow: 'pow'}

    def binop(self, op, a, b, node, rel):
        name = self.OPS.get(type(op))
        if name is None:
            self.imprecise('unmodelled operator', node, rel)
            return Top('operator')
        if isinstance(a, Unknown) or isinstance(b, Unknown):
            return Top('unknown operand')
        if not isinstance(a, E) and not isinstance(b, E):
            plain = (int, float, str, bool, list, tuple)
            if isinstance(a, plain) and isinstance(b, plain):
                try:
                    return {'add': lambda: a + b, 'sub': lambda: a - b, 'mul': lambda: a * b, 'div': lambda: a / b,
                            'floordiv': lambda: a // b, 'mod': lambda: a % b, 'pow': lambda: a ** b}[name]()
                except ZeroDivisionError:
                    self.raise_('ZeroDivisionError', node, rel)
                except Exception as e:
                    self.abort('TypeError', f'{name} on {type(a).__name__} and {type(b).__name__}: {e}', node, rel)
            if a is None or b is None:
                self.abort('TypeError', f'{name} with None operand', node, rel)
            self.imprecise('operator on model values', node, rel)
            return Top('operator on model values')
        ta, tb = _ty(a), _ty(b)
        if name == 'add' and (ta == 'str' or tb == 'str'):
            return E('fstr', *(list(a.args) if isinstance(a, E) and a.op == 'fstr' else [a]),
                     *(list(b.args) if isinstance(b, E) and b.op == 'fstr' else [b]), ty='str')
        if name == 'mod' and ta == 'str':
            return E('call', 'str.%', a, b, ty='str')
        if name == 'div':
            ty = 'float'
        elif ta == 'float' or tb == 'float':
            ty = 'float'
        elif ta in ('int', 'bool') and tb in ('int', 'bool'):
            ty = 'int'
        else:
            ty = 'num'
        return E(name, a, b, ty=ty)

    CMP = {ast.Eq: 'eq', ast.NotEq: 'ne', ast.Lt: 'lt', ast.LtE: 'le', ast.Gt: 'gt', ast.GtE: 'ge',
           ast.Is: 'is', ast.IsNot: 'isnot', ast.In: 'in', ast.NotIn: 'notin'}

    def x_Compare(self, n, ctx):
        left = self.ev(n.left, ctx)
        result = True
        for i, (op, rn) in enumerate(zip(n.ops, n.comparators)):
            right = self.ev(rn, ctx)
            r = self.compare(self.CMP[type(op)], left, right, n, ctx)
            if i == len(n.ops) - 1 and result is True:
                return r
            if not self.truth(r, n, ctx.rel):
                return False
            left = right
        return result

    def compare(self, op, a, b, n, ctx):
        rel = ctx.rel
        if isinstance(b, ValuesTok) and b.raw and op in ('in', 'notin'):
            self.read('v', b, a, n, ctx, membership=True)
            return E(op, a, 'store', ty='bool')
        if isinstance(a, (InputsTok, ValuesTok)) or isinstance(b, (InputsTok, ValuesTok)):
            self.event('access', f'the accessor is used in a comparison/membership test ({unparse(n)})', n, rel)
            return Top('accessor compare')
        if isinstance(a, FormsMapTok) or isinstance(b, FormsMapTok):
            self.event('access', f'the set of forms the solver has loaded so far is consulted ({unparse(n)}): it grows during the solve, so the answer depends on the attempt order', n, rel)
        if op in ('in', 'notin'):
            if isinstance(b, (list, tuple)) and isinstance(a, E) and a.ty == 'enum' and a.meta is not None:
                # a list may deliberately mix members of several enumerations; only the
                # members of the value's own enumeration can ever match
                own = [x for x in b if not (isinstance(x, EnumMember) and x.enum is not a.meta[0])]
                if b and not own:
                    self.event('enum-mismatch', (a, tuple(b)), n, rel)
                else:
                    self.event('enum-cmp-ok', None, n, rel)
                b = own
            if isinstance(b, (list, tuple)) and self.nofork:
                terms = []
                hit = False
                for item in b:
                    r = self.compare('eq', a, item, n, ctx)
                    if r is True:
                        hit = True
                    elif r is not False:
                        terms.append(r)
                if hit:
                    r = True
                elif not terms:
                    r = False
                else:
                    r = terms[0] if len(terms) == 1 else E('or', *terms, ty='bool')
                if op == 'in':
                    return r
                return (not r) if isinstance(r, bool) else E('not', r, ty='bool')
            if isinstance(b, (list, tuple)):
                # unrolled membership: or of equalities, decided one by one
                res = False
                for item in b:
                    r = self.compare('eq', a, item, n, ctx)
                    if self.truth(r, n, rel):
                        res = True
                        break
                return res if op == 'in' else not res
            if isinstance(b, str) and isinstance(a, str):
                return (a in b) if op == 'in' else (a not in b)
            if isinstance(b, dict) and const_like(a):
                r = any(self.ip.equal(a, k) for k in b)
                return r if op == 'in' else not r
            return E(op, a, b, ty='bool')
        if not isinstance(a, E) and not isinstance(b, E):
            try:
                fake = {'eq': ast.Eq, 'ne': ast.NotEq, 'lt': ast.Lt, 'le': ast.LtE, 'gt': ast.Gt, 'ge': ast.GtE,
                        'is': ast.Is, 'isnot': ast.IsNot}[op]()
                if op in ('lt', 'le', 'gt', 'ge') and (a is None or b is None):
                    self.abort('TypeError', f'ordering comparison with None ({unparse(n)})', n, rel)
                r = self.ip.compare(fake, a, b, n, ctx.clo.scope)
                if isinstance(r, Unknown):
                    return Top(r.reason)
                return r
            except InterpAbort as e:
                self.abort('TypeError', str(e), n, rel)
        # a declared input/line value is None only for an enumeration that may be empty
        for x, y in ((a, b), (b, a)):
            if y is None and isinstance(x, E) and x.op in ('i', 'v') and x.ty is not None \
                    and not (x.ty == 'enum' and x.meta and x.meta[1]) and op in ('eq', 'ne', 'is', 'isnot'):
                return op in ('ne', 'isnot')
        # enum identity: comparing a value of enum type with a member of another enum
        for x, y in ((a, b), (b, a)):
            if isinstance(x, E) and x.ty == 'enum' and isinstance(y, EnumMember) and x.meta is not None:
                if x.meta[0] is not y.enum:
                    self.event('enum-mismatch', (x, y), n, rel)
                    return op in ('ne', 'isnot')
                self.event('enum-cmp-ok', None, n, rel)
            if isinstance(x, E) and x.ty == 'enum' and isinstance(y, str):
                self.event('enum-vs-str', (x, y), n, rel)
        return E(op, a, b, ty='bool')

    def x_Subscript(self, n, ctx):
        base = self.ev(n.value, ctx)
        rel = ctx.rel
        if isinstance(n.slice, ast.Slice):
            lo = self.ev(n.slice.lower, ctx) if n.slice.lower else None
            hi = self.ev(n.slice.upper, ctx) if n.slice.upper else None
            if isinstance(base, (str, list, tuple)) and not isinstance(lo, E) and not isinstance(hi, E):
                return base[lo:hi]
            return E('slice', base, lo, hi, ty=_ty(base))
        k = self.ev(n.slice, ctx)
        if isinstance(base, InputsTok):
            return self.read('i', base, k, n, ctx)
        if isinstance(base, ValuesTok):
            return self.read('v', base, k, n, ctx)
        if isinstance(base, FormsMapTok):
            return self.form_access(k, n, ctx)
        if isinstance(base, (dict, list, tuple)) and isinstance(k, E) and k.ty == 'int' and not self.nofork:
            lo, hi = int_range(k)
            if lo is not None and hi is not None and 0 <= hi - lo <= 8:
                got = hi
                for kk in range(lo, hi):
                    if self.decide(E('eq', k, kk, ty='bool'), n, rel):
                        got = kk
                        break
                k = got
        if isinstance(base, dict):
            if isinstance(k, E):
                self.imprecise('dict lookup with a symbolic key', n, rel)
                return Top('dict[sym]')
            for kk, vv in base.items():
                if self.ip.equal(kk, k):
                    return vv
            self.abort('KeyError', f'{vkey(k)} not in dict', n, rel)
        if isinstance(base, (list, tuple, str)):
            if isinstance(k, E):
                return E('subscr', base if isinstance(base, str) else Top('seq'), k, ty=None)
            try:
                return base[k]
            except Exception as e:
                self.abort(type(e).__name__, f'{unparse(n)}: {e}', n, rel)
        if isinstance(base, EnumV):
            if isinstance(k, str):
                if k in base.members:
                    return base.member(k)
                self.abort('KeyError', f'enum {base!r} has no member {k!r}', n, rel)
            return E('enumlookup', base, k, ty='enum', meta=(base, False))
        if isinstance(base, E):
            return E('subscr', base, k, ty='str' if base.ty == 'str' else None)
        self.imprecise(f'subscript of {type(base).__name__}', n, rel)
        return Top('subscript')

    # ---- reads
    def read(self, kind, tok, k, n, ctx, membership=False):
        rel = ctx.rel
        parts = key_parts(k)
        if getattr(tok, 'raw', False) and '.' not in ''.join(p for p in parts if isinstance(p, str)):
            self.issue('KeyError', f'value store indexed with unqualified name {render_parts(parts)!r}', n, rel)
        owner = self._formrec_of(tok.form)
        res = resolve_key(self.cat, self.year, owner, kind, parts)
        rd = Read(kind, parts, res.qualified or render_parts(parts), n, rel, owner, len(self.path.guards), self.loop_depth > 0)
        rd.res = res
        self.path.reads.append(rd)
        atomkey = f'{kind}:{res.qualified}'
        if res.form is not None and res.instance is not None and not res.form.class_attrs.get('valid_instances') and res.name is not None:
            # copies of a multi-instance input form are interchangeable: one canonical atom
            atomkey = f'{kind}:{res.form_name}:*.{res.name}'
        rd.atom = atomkey
        if membership:
            return None
        if res.absent_form:
            # the solver aborts the whole solve: "Form X is not supported"
            self.raise_('NotImplementedError', n, rel, f'form {res.form_name} is not in the {self.year} catalogue')
        if atomkey in self.assume and not (self.noassume and self.loop_depth > 0):
            return self.assume[atomkey]
        ty, meta = None, None
        if res.decl is not None:
            ty, meta = decl_type(res.decl, kind)
        elif res.form is not None and res.open_holes and res.name is not None:
            # a name with a computed part (dependent_{n}_ctc): typed by its first instance
            table = res.form.input_map() if kind == 'i' else res.form.field_map()
            d0 = table.get(res.name.replace('\0', '0'))
            if d0 is not None:
                ty, meta = decl_type(d0, kind)
        if kind == 'v' and self.line_oracle is not None and res.decl is not None and not rd.in_loop:
            got = self.line_oracle(res, atomkey, self)
            if got is not _MISSING:
                return got
        return E(kind, res.qualified, ty=ty, meta=meta)

    def _formrec_of(self, form_rec):
        for f in self.cat.forms(self.year):
            if f.rec is form_rec:
                return f
        return self.fr

    def form_access(self, k, n, ctx):
        rel = ctx.rel
        if not isinstance(k, str):
            self.imprecise('solver.forms[...] with a computed name', n, rel)
            return Top('forms[sym]')
        fname, _, inst = k.partition(':')
        fr = self.cat.find(self.year, fname, inst or None)
        self.event('form-access', k, n, rel)
        if fr is None or fr.rec is None:
            self.abort('KeyError', f"solver.forms[{k!r}]: no such form in the {self.year} catalogue", n, rel)
        return fr.rec

    # ---- attributes
    def x_Attribute(self, n, ctx):
        base = self.ev(n.value, ctx)
        return self.getattr(base, n.attr, n, ctx)

    def getattr(self, base, attr, n, ctx):
        rel = ctx.rel
        if isinstance(base, (InputsTok, ValuesTok)):
            self.event('access', f'attribute .{attr} of the accessor', n, rel)
            return Top('accessor attribute')
        if isinstance(base, FormsMapTok):
            self.event('access', f'.{attr} of the set of forms the solver has loaded so far (it grows during the solve)', n, rel)
            return Top('forms map attribute')
        if isinstance(base, SolverTok):
            if attr == 'forms':
                return FormsMapTok()
            self.event('access', f'solver.{attr} used inside a definition', n, rel)
            return Top('solver attribute')
        if isinstance(base, Rec):
            if attr in base.attrs:
                return base.attrs[attr]
            c, m = base.cls.find_method(attr)
            if m is not None:
                clo = self.ip.make_closure(m, Scope(ns=self.ip.module_ns(c.rel), rel=c.rel, cls=c), c.rel)
                return BoundMethod(clo, base)
            c, node = base.cls.class_attr_node(attr)
            if node is not None:
                return self.ip.eval_in_ns(node, self.ip.module_ns(c.rel), c.rel)
            c, ga = base.cls.find_method('__getattr__')
            if ga is not None and isinstance(base.attrs.get('enum'), EnumV):
                e = base.attrs['enum']
                if attr in e.members:
                    return e.member(attr)
            self.abort('AttributeError', f'{base.cls.name} object has no attribute {attr!r} ({unparse(n)})', n, rel)
        if isinstance(base, E):
            if base.ty == 'str' or (base.ty is None and attr in ('upper', 'lower', 'strip', 'split', 'replace', 'title')):
                return SymMethod(base, attr)
            if base.ty == 'enum' and attr in ('name', 'value'):
                return E('attr', base, attr, ty='str')
            if base.ty == 'enum' and base.meta and attr in base.meta[0].members:
                return base.meta[0].member(attr)      # member access through a member (Python >= 3.12)
            if base.op == 'top':
                return Top('attr of top')
            self.abort('AttributeError', f'value of type {base.ty} has no attribute {attr!r} ({unparse(n)})', n, rel)
        if isinstance(base, (ModuleV, ClassV, EnumV, EnumMember, ExternalV)) or isinstance(base, (str, list, dict)):
            try:
                v = self.ip.getattr(base, attr, n, ctx.clo.scope)
            except InterpAbort as e:
                self.abort('AttributeError', e.msg, n, rel)
            if isinstance(v, Unknown):
                self.imprecise(v.reason, n, rel)
                return Top(v.reason)
            return v
        if base is None:
            self.abort('AttributeError', f"'NoneType' object has no attribute {attr!r}", n, rel)
        if isinstance(base, (int, float, bool, tuple)):
            self.abort('AttributeError', f'{type(base).__name__} object has no attribute {attr!r}', n, rel)
        self.imprecise(f'attribute of {type(base).__name__}', n, rel)
        return Top('attribute')

    # ---- calls
    def x_Call(self, n, ctx):
        rel = ctx.rel
        if isinstance(n.func, ast.Attribute) and isinstance(n.func.value, ast.Call) \
                and isinstance(n.func.value.func, ast.Name) and n.func.value.func.id == 'super':
            self.imprecise('super() inside a definition', n, rel)
            return Top('super')
        f = self.ev(n.func, ctx)
        args = []
        for a in n.args:
            if isinstance(a, ast.Starred):
                v = self.ev(a.value, ctx)
                if isinstance(v, (list, tuple)):
                    args.extend(v)
                else:
                    self.imprecise('starred argument', a, rel)
            else:
                args.append(self.ev(a, ctx))
        kwargs = {}
        for k in n.keywords:
            if k.arg is None:
                v = self.ev(k.value, ctx)
                if isinstance(v, dict):
                    kwargs.update(v)
                else:
                    self.imprecise('** argument', k, rel)
            else:
                kwargs[k.arg] = self.ev(k.value, ctx)
        return self.call(f, args, kwargs, n, ctx)

    def call(self, f, args, kwargs, n, ctx):
        rel = ctx.rel
        if isinstance(f, Closure):
            self.event('call', f.name, n, rel)
            self.event('callnode', (f.rel, getattr(f.node, 'lineno', 0), f.name), n, rel)
            if f.scope.parent is None and f.scope.cls is None and f.rel.startswith('habutax/forms/'):
                # module-level helper of a form package (figure_tax ...): summarised as a
                # pure call; its body is analysed on its own (C07, purity rule)
                self.check_arity(f, args, kwargs, n, rel)
                self.event('modcall', (f.rel, f.name), n, rel)
                return E('call', f'{f.rel}:{f.name}', *args, ty='float' if f.name.startswith('figure_tax') else None)
            return self.call_closure(f, args, kwargs, n, rel)
        if isinstance(f, BoundMethod):
            self.event('call', f'{f.selfv.cls.name if isinstance(f.selfv, Rec) else "?"}.{f.closure.name}', n, rel)
            return self.call_closure(f.closure, [f.selfv] + args, kwargs, n, rel)
        if isinstance(f, SymMethod):
            return E('call', 'str.' + f.name, f.obj, *args, ty='list' if f.name == 'split' else 'str')
        if isinstance(f, NativeMethod):
            if any(isinstance(a, E) for a in args):
                if isinstance(f.obj, list) and f.name == 'append':
                    if not ctx.is_local_obj(f.obj):
                        self.event('effect', 'append to a non-local list', n, rel)
                    f.obj.append(args[0])
                    return None
                if isinstance(f.obj, str) and f.name == 'join' and isinstance(args[0], (list, tuple)):
                    parts = []
                    for i, a in enumerate(args[0]):
                        if i:
                            parts.append(f.obj)
                        parts.append(a)
                    return E('fstr', *parts, ty='str')
                return E('call', f'native.{f.name}', *args, ty=None)
            if isinstance(f.obj, (list, dict)) and f.name in ('append', 'extend', 'update', 'insert') and not ctx.is_local_obj(f.obj):
                self.event('effect', f'{f.name} on a non-local container', n, rel)
            if isinstance(f.obj, str) and f.name == 'join' and isinstance(args[0], (list, tuple)) and any(isinstance(a, E) for a in args[0]):
                parts = []
                for i, a in enumerate(args[0]):
                    if i:
                        parts.append(f.obj)
                    parts.append(a)
                return E('fstr', *parts, ty='str')
            try:
                r = f.call(self.ip, args, kwargs, n, ctx.clo.scope)
            except InterpAbort as e:
                self.abort(e.kind, e.msg, n, rel)
            if isinstance(r, Unknown):
                return Top(r.reason)
            return r
        if isinstance(f, Builtin):
            return self.builtin(f.name, args, kwargs, n, ctx)
        if isinstance(f, ExternalV):
            self.event('extcall', f.qual, n, rel)
            if f.qual == 'math.ceil':
                if isinstance(args[0], E):
                    return E('call', 'ceil', args[0], ty='int')
                import math
                return math.ceil(args[0])
            return E('call', f.qual, *args, ty=None)
        if isinstance(f, ClassV):
            self.event('instantiate', f.name, n, rel)
            return Top(f'instance of {f.name}')
        if isinstance(f, E) and f.op == 'top':
            return Top('call of top')
        if isinstance(f, Unknown):
            self.imprecise(f.reason, n, rel)
            return Top(f.reason)
        self.abort('TypeError', f'{unparse(n.func)} is not callable ({type(f).__name__})', n, rel)

    def check_arity(self, clo, args, kwargs, n, rel):
        a = clo.node.args
        pos = [x.arg for x in a.posonlyargs + a.args]
        need = [p for p in pos[len(args):] if p not in clo.defaults and p not in kwargs]
        if (len(args) > len(pos) and a.vararg is None) or need or any(k not in pos and a.kwarg is None for k in kwargs):
            self.abort('TypeError', f'{clo.name}() called with {len(args)} positional / {sorted(kwargs)} keyword arguments; signature is ({", ".join(pos)})', n, rel)

    def builtin(self, name, args, kwargs, n, ctx):
        rel = ctx.rel
        sym = any(isinstance(a, (E, SymList)) or (isinstance(a, (list, tuple)) and any(isinstance(x, E) for x in a)) for a in args)
        for a in args:
            if isinstance(a, (InputsTok, ValuesTok)):
                self.event('access', f'{name}() applied to the accessor', n, rel)
                return Top('accessor')
            if isinstance(a, FormsMapTok):
                self.event('access', f'{name}() applied to the set of forms the solver has loaded so far (it grows during the solve)', n, rel)
                return Top('forms map')
        if name in ('sum', 'any', 'all', 'list', 'tuple', 'sorted', 'max', 'min', 'set', 'dict', 'enumerate', 'zip', 'reversed'):
            args = [self.consume(a, n, rel) for a in args]
            if name in ('list', 'tuple', 'sorted') and args and isinstance(args[0], SymList) and args[0].oneshot:
                a0 = args[0]
                args[0] = SymList(a0.count, a0.idx, a0.body, a0.cond)      # a list made from it can be walked again
        if name == 'range':
            if any(isinstance(a, E) for a in args):
                if len(args) == 1:
                    return SymRange(0, args[0])
                self.imprecise('range with symbolic start', n, rel)
                return SymRange(args[0], args[1])
            try:
                return range(*args)
            except Exception as e:
                self.abort('TypeError', f'range: {e}', n, rel)
        if name == 'isinstance' and len(args) == 2:
            return self.isinstance_(args[0], args[1], n, ctx)
        if name == 'type' and len(args) == 1:
            v = args[0]
            if isinstance(v, E):
                if v.ty == 'enum' and v.meta:
                    return v.meta[0]
                t = {'float': 'float', 'int': 'int', 'bool': 'bool', 'str': 'str'}.get(v.ty)
                return Builtin(t) if t else Top('type of symbolic')
            r = self.ip.typeof(v, n, ctx.clo.scope)
            return Top(r.reason) if isinstance(r, Unknown) else r
        if name in ('input', 'open', 'exec', 'eval', 'id', 'hash', 'setattr', 'delattr', 'globals', 'locals', 'vars', 'print', '__import__', 'compile', 'breakpoint'):
            self.event('effect', f'{name}() inside a definition', n, rel)
            return None if name in ('print', 'setattr', 'delattr') else Top(name)
        if not sym:
            try:
                r = self.ip.call_builtin(name, args, kwargs, n, ctx.clo.scope)
            except InterpAbort as e:
                self.abort(e.kind, e.msg, n, rel)
            if isinstance(r, Unknown):
                self.imprecise(r.reason, n, rel)
                return Top(r.reason)
            return r
        if name == 'sum':
            seq = args[0]
            start = args[1] if len(args) > 1 else 0
            if isinstance(seq, SymList):
                body = seq.guarded_body(0)
                s = E('sumn', seq.count, seq.idx, body, ty=_num_ty(seq.body))
                return s if (start == 0 and not isinstance(start, float)) else self.binop(ast.Add(), start, s, n, rel)
            if isinstance(seq, (list, tuple)):
                acc = start
                for x in seq:
                    acc = self.binop(ast.Add(), acc, x, n, rel)
                return acc
            return Top('sum of symbolic')
        if name in ('min', 'max'):
            vals = list(args[0]) if len(args) == 1 and isinstance(args[0], (list, tuple)) else list(args)
            if any(v is None for v in vals):
                self.abort('TypeError', f'{name}() with a None operand', n, rel)
            consts = [v for v in vals if not isinstance(v, E)]
            syms = [v for v in vals if isinstance(v, E)]
            if len(consts) > 1:
                consts = [min(consts) if name == 'min' else max(consts)]
            ty = 'float' if any(_ty(v) == 'float' for v in vals) else ('int' if all(_ty(v) in ('int', 'bool') for v in vals) else 'num')
            return E(name, *(consts + syms), ty=ty)
        if name == 'float':
            return E('call', 'float', args[0], ty='float')
        if name == 'int':
            return E('call', 'int', args[0], ty='int')
        if name == 'bool':
            return E('call', 'bool', args[0], ty='bool')
        if name == 'round':
            return E('call', 'round', *args, ty='int' if len(args) == 1 else _ty(args[0]))
        if name == 'abs':
            return E('call', 'abs', args[0], ty=_num_ty(args[0]))
        if name == 'str':
            return E('call', 'str', args[0], ty='str')
        if name == 'len':
            if isinstance(args[0], (list, tuple)):
                return len(args[0])
            if isinstance(args[0], SymList):
                if args[0].cond is None:
                    return args[0].count
                return E('countif', args[0].count, args[0].idx, args[0].cond, ty='int')
            return E('call', 'len', args[0], ty='int')
        if name in ('list', 'tuple'):
            return args[0]
        if name == 'sorted':
            return E('call', 'sorted', args[0], ty='list')
        if name in ('any', 'all'):
            seq = args[0]
            if isinstance(seq, (list, tuple)):
                for x in seq:
                    t = self.truth(x, n, rel)
                    if name == 'any' and t:
                        return True
                    if name == 'all' and not t:
                        return False
                return name == 'all'
            if isinstance(seq, SymList):
                b = seq.body
                if seq.cond is not None:
                    b = E('and', seq.cond, b, ty='bool') if name == 'any' else E('or', E('not', seq.cond, ty='bool'), b, ty='bool')
                return self.quant('exists_n' if name == 'any' else 'forall_n', seq.idx, b)
        if name == 'print':
            self.event('effect', 'print() inside a definition', n, rel)
            return None
        if name in ('input', 'open', 'exec', 'eval', 'id', 'hash', 'setattr', 'delattr', 'globals', 'locals', 'vars'):
            self.event('effect', f'{name}() inside a definition', n, rel)
            return Top(name)
        self.imprecise(f'builtin {name} over symbolic values', n, rel)
        return Top(name)

    def isinstance_(self, v, t, n, ctx):
        if isinstance(v, E):
            if isinstance(t, EnumV):
                if v.ty == 'enum' and v.meta:
                    return v.meta[0] is t
                return False if v.ty in ('float', 'int', 'bool', 'str') else Top('isinstance')
            if isinstance(t, Builtin):
                if v.ty == 'enum':
                    return False
                m = {'float': ['float'], 'int': ['int', 'bool'], 'bool': ['bool'], 'str': ['str']}
                if v.ty in ('float', 'int', 'bool', 'str') and t.name in m:
                    return v.ty in m[t.name]
                if t.name in ('dict', 'list', 'tuple', 'set'):
                    return False
            return Top('isinstance of symbolic')
        r = self.ip.isinstance(v, t, n, ctx.clo.scope)
        return Top(r.reason) if isinstance(r, Unknown) else r

    # ---- comprehensions
    def x_ListComp(self, n, ctx):
        return self._comp(n, ctx)

    def x_GeneratorExp(self, n, ctx):
        r = self._comp(n, ctx)
        if isinstance(r, SymList):
            r.oneshot = True
            r.made_at = n
        return r

    def consume(self, v, n, rel):
        """a generator can be walked once: whoever comes second sees an empty sequence"""
        if isinstance(v, SymList) and v.oneshot:
            if v.consumed:
                self.event('exhausted', f'the generator made at line {getattr(v.made_at, "lineno", "?")} has already been consumed; `{unparse(n, 60)}` sees an empty sequence', n, rel)
                return []
            v.consumed = True
        return v

    def x_SetComp(self, n, ctx):
        r = self._comp(n, ctx)
        if isinstance(r, SymList):
            reads = []
            _walk_e(r.body, lambda x: reads.append(x) if isinstance(x, E) and x.op in ('i', 'v') else None) if isinstance(r.body, E) else None
            if reads:
                self.event('collapse', f'the values read from the copies (`{unparse(n.elt, 50)}`) are collected in a SET: two copies with the same value become one element, '
                                       'so a sum or count over it loses every amount that happens to equal another copy\'s', n, ctx.rel)
        return r

    def x_DictComp(self, n, ctx):
        rel = ctx.rel
        if len(n.generators) != 1 or not isinstance(n.generators[0].target, ast.Name):
            self.imprecise('dict comprehension with several generators or a structured target', n, rel)
            return Top('dict comprehension')
        g = n.generators[0]
        it = self.consume(self.ev(g.iter, ctx), n, rel)
        if isinstance(it, SymRange):
            # the key and value expressions are evaluated once with the index hole, so that what they read is recorded and
            # resolved; the mapping itself (later keys replace earlier equal ones) is not modelled
            idx = E('idx', g.target.id, it.hi, ty='int')
            ctx.env.append({g.target.id: idx})
            self.loop_depth += 1
            self.nofork += 1
            try:
                kx = self.nofork_expr(n.key, ctx)
                self.nofork_expr(n.value, ctx)
                reads_in_key = []
                _walk_e(kx, lambda x: reads_in_key.append(x) if x.op in ('i', 'v') else None)
                if reads_in_key:
                    self.event('collapse', f'the copies are put into a mapping keyed by {kx!r}, a value read from the copy: two copies with equal keys become one entry holding '
                                           'the later copy\'s value, so amounts are lost and which one survives depends on the numbering', n, rel)
                for cnd in g.ifs:
                    self.nofork_cond(cnd, ctx)
            finally:
                self.nofork -= 1
                self.loop_depth -= 1
                ctx.env.pop()
            self.imprecise('dict comprehension over a symbolic range (a mapping keyed by computed values: equal keys collapse)', n, rel)
            return Top('dict comprehension')
        seq = list(it) if isinstance(it, (list, tuple, str, range)) else list(it.keys()) if isinstance(it, dict) else None
        if seq is None:
            self.imprecise('dict comprehension over a symbolic sequence', n, rel)
            return Top('dict comprehension')
        out = {}
        ctx.env.append({})
        try:
            for item in seq[:200]:
                self.assign(g.target, item, ctx)
                if all(self.truth(self.ev(c, ctx), c, rel) for c in g.ifs):
                    k = self.ev(n.key, ctx)
                    val = self.ev(n.value, ctx)
                    if isinstance(k, E):
                        self.imprecise('dict comprehension with a symbolic key', n, rel)
                        return Top('dict comprehension')
                    out[k] = val
        finally:
            ctx.env.pop()
        return out

    def _comp(self, n, ctx):
        rel = ctx.rel
        if len(n.generators) != 1:
            self.imprecise('nested comprehension', n, rel)
        g = n.generators[0]
        it = self.consume(self.ev(g.iter, ctx), n, rel)
        if isinstance(it, SymRange) and isinstance(g.target, ast.Name) and len(n.generators) == 1:
            idx = E('idx', g.target.id, it.hi, ty='int')
            ctx.env.append({g.target.id: idx})
            self.loop_depth += 1
            self.nofork += 1
            try:
                body = self.nofork_expr(n.elt, ctx)
                cond = None
                for cnd in g.ifs:
                    c = self.nofork_cond(cnd, ctx)
                    if c is True:
                        continue
                    cond = c if cond is None else E('and', cond, c, ty='bool')
            finally:
                self.nofork -= 1
                self.loop_depth -= 1
                ctx.env.pop()
            return SymList(it.hi, idx, body, cond)
        if isinstance(it, SymList) and isinstance(g.target, ast.Name) and len(n.generators) == 1:
            # iterating over a (filtered) list of instance numbers, or of values computed from them
            idx = it.idx
            ctx.env.append({g.target.id: it.body})
            self.loop_depth += 1
            self.nofork += 1
            try:
                body = self.nofork_expr(n.elt, ctx)
                cond = it.cond
                for cnd in g.ifs:
                    c = self.nofork_cond(cnd, ctx)
                    if c is True:
                        continue
                    cond = c if cond is None else E('and', cond, c, ty='bool')
            finally:
                self.nofork -= 1
                self.loop_depth -= 1
                ctx.env.pop()
            return SymList(it.count, idx, body, cond)
        seq = None
        if isinstance(it, (list, tuple, str, range)):
            seq = list(it)
        elif isinstance(it, dict):
            seq = list(it.keys())
        elif isinstance(it, DictItems):
            seq = list(it.items)
        elif isinstance(it, (InputsTok, ValuesTok)):
            self.event('access', 'iteration over the accessor', n, rel)
            return Top('accessor iteration')
        elif isinstance(it, FormsMapTok):
            self.event('access', 'iteration over the set of forms the solver has loaded so far (it grows during the solve)', n, rel)
            return Top('forms map iteration')
        if seq is None:
            self.imprecise('comprehension over a symbolic sequence', n, rel)
            return Top('comprehension')
        out = []
        ctx.env.append({})
        try:
            for item in seq[:200]:
                self.assign(g.target, item, ctx)
                ok = True
                for cond in g.ifs:
                    if not self.truth(self.ev(cond, ctx), cond, rel):
                        ok = False
                        break
                if ok:
                    out.append(self.ev(n.elt, ctx))
        finally:
            ctx.env.pop()
        ctx.local_objs.append(out)
        return out

    def nofork_expr(self, n, ctx):
        """Evaluate an expression without forking: undecided IfExp/BoolOp become
        ite/and/or terms."""
        if isinstance(n, ast.IfExp):
            c = self.nofork_cond(n.test, ctx)
            if c is True:
                return self.nofork_expr(n.body, ctx)
            if c is False:
                return self.nofork_expr(n.orelse, ctx)
            a = self.nofork_expr(n.body, ctx)
            b = self.nofork_expr(n.orelse, ctx)
            return E('ite', c, a, b, ty=_ty(a) if _ty(a) == _ty(b) else (_ty(a) or _ty(b)))
        if isinstance(n, ast.BoolOp):
            vals = [self.nofork_cond(v, ctx) for v in n.values]
            op = 'and' if isinstance(n.op, ast.And) else 'or'
            out = []
            for v in vals:
                if v is True:
                    if op == 'or':
                        return True
                    continue
                if v is False:
                    if op == 'and':
                        return False
                    continue
                out.append(v)
            if not out:
                return op == 'and'
            return out[0] if len(out) == 1 else E(op, *out, ty='bool')
        try:
            return self.ev(n, ctx)
        except _NoForkUndecided as u:
            # a sub-expression needed a decision (e.g. nested `and` inside a call):
            self.imprecise('undecided condition inside a per-instance expression', n, ctx.rel)
            return Top('nofork')

    def nofork_cond(self, n, ctx):
        v = self.nofork_expr(n, ctx)
        if isinstance(v, E):
            c, pol = self.norm_cond(v)
            known = self.lookup_fact(c)
            if known is not None:
                return known if pol else not known
            return v
        if isinstance(v, (Rec, Closure, ClassV, EnumV, EnumMember)):
            return True
        return bool(v)


class _NoForkUndecided(Exception):
    def __init__(self, cond):
        self.cond = cond


class SymMethod:
    def __init__(self, obj, name):
        self.obj = obj
        self.name = name


class Ctx:
    def __init__(self, clo, env):
        self.clo = clo
        self.env = env
        self.rel = clo.rel
        self.local_objs = []

    def is_local_obj(self, o):
        return any(o is x for x in self.local_objs)


class LoopBody:
    """Guarded, fork-free execution of the body of `for n in range(count)`."""

    def __init__(self, ev, ctx, idx, count):
        self.ev = ev
        self.ctx = ctx
        self.idx = idx
        self.count = count
        self.exits = []      # (cond E|True, 'raise'|'return', payload, node)
        self.final = {}
        self.first_only = None
        self.breaks = []
        self.accumulates = False

    def run(self, body, target):
        ev, ctx = self.ev, self.ctx
        ctx.env.append({target: self.idx})
        ev.nofork += 1
        try:
            self.state = {}          # name -> value written in the loop
            self.skip = None         # condition under which the rest of the body is skipped (continue)
            self.block(body, True)
        finally:
            ev.nofork -= 1
            ctx.env.pop()
        self.final = self.state

    def cur(self, name):
        if name in self.state:
            return self.state[name]
        return self.ev.lookup(name, self.ctx.env, self.ctx.clo.scope, None, self.ctx.rel)

    def guard_and(self, g, c):
        if g is True:
            return c
        if c is True:
            return g
        return E('and', g, c, ty='bool')

    def block(self, stmts, g):
        for st in stmts:
            gg = g
            if self.skip is not None:
                gg = self.guard_and(g, E('not', self.skip, ty='bool'))
            self.stmt(st, gg)

    def stmt(self, st, g):
        ev, ctx = self.ev, self.ctx
        rel = ctx.rel
        if isinstance(st, ast.If):
            c = ev.nofork_cond(st.test, ctx)
            if c is True:
                self.block(st.body, g)
            elif c is False:
                self.block(st.orelse, g)
            else:
                self.block(st.body, self.guard_and(g, c))
                if st.orelse:
                    self.block(st.orelse, self.guard_and(g, E('not', c, ty='bool')))
        elif isinstance(st, ast.AugAssign) and isinstance(st.target, ast.Name):
            name = st.target.id
            old = self.cur(name)
            rhs = ev.nofork_expr(st.value, ctx)
            if g is not True:
                rhs = E('ite', g, rhs, 0, ty=_ty(rhs))
            new = ev.binop(st.op, old, rhs, st, rel)
            self.state[name] = new
            self._mirror(name, new)
            self.accumulates = True
        elif isinstance(st, ast.Assign) and len(st.targets) == 1 and isinstance(st.targets[0], ast.Name):
            name = st.targets[0].id
            v = ev.nofork_expr(st.value, ctx)
            if g is not True:
                try:
                    old = self.cur(name)
                except _RaiseSignal:
                    old = None
                v = E('ite', g, v, old, ty=_ty(v))
            self.state[name] = v
            self._mirror(name, v)
        elif isinstance(st, ast.Expr):
            try:
                ev.nofork_expr(st.value, ctx)
            except _RaiseSignal as r:
                self.exits.append((g, 'raise', r.outcome, st))
        elif isinstance(st, ast.Return):
            v = ev.nofork_expr(st.value, ctx) if st.value is not None else None
            self.exits.append((g, 'return', v, st))
            if g is True:
                self.first_only = st       # nothing conditional about it: the first round always leaves
        elif isinstance(st, ast.Raise):
            try:
                ev.do_raise(st, ctx)
            except _RaiseSignal as r:
                self.exits.append((g, 'raise', r.outcome, st))
        elif isinstance(st, ast.Continue):
            self.skip = g if self.skip is None else E('or', self.skip, g, ty='bool')
        elif isinstance(st, ast.Break):
            # leaving the loop at the first copy that satisfies g: harmless when the loop only looks for such a copy (a flag
            # set to a constant), order-dependent as soon as anything is accumulated over the copies visited so far
            self.breaks.append((g, st))
            self.skip = g if self.skip is None else E('or', self.skip, g, ty='bool')
        elif isinstance(st, ast.Pass):
            pass
        else:
            ev.imprecise(f'statement {type(st).__name__} inside a per-instance loop', st, rel)
            ev.event('unmodelled', f'loop body {type(st).__name__}', st, rel)

    def _mirror(self, name, v):
        # make later statements of the same iteration see the update
        for frame in reversed(self.ctx.env):
            if name in frame:
                frame[name] = v
                return
        self.ctx.env[-1][name] = v


_MISSING = object()


def _flatten_env(env):
    out = {}
    for frame in env:
        out.update(frame)
    return out.items()


def _latch(new, old, loopvar):
    """new == ite(g1, X, ite(g2, X, ... old)) with one constant X that does not depend on the round -> (g1 or g2 ..., X)"""
    conds = []
    x = _MISSING
    cur = new
    while isinstance(cur, E) and cur.op == 'ite' and cur.args[2] is not old:
        if isinstance(cur.args[1], E) or (x is not _MISSING and cur.args[1] is not x and cur.args[1] != x):
            return None
        x = cur.args[1]
        conds.append(cur.args[0])
        cur = cur.args[2]
    if not (isinstance(cur, E) and cur.op == 'ite' and cur.args[2] is old):
        return None
    if isinstance(cur.args[1], E) or (x is not _MISSING and cur.args[1] != x):
        return None
    x = cur.args[1]
    conds.append(cur.args[0])
    g = conds[0]
    for c in conds[1:]:
        g = E('or', g, c, ty='bool')
    return g, x


def _walk_e(e, fn):
    if isinstance(e, E):
        fn(e)
        for a in e.args:
            _walk_e(a, fn)
    elif isinstance(e, (list, tuple)):
        for a in e:
            _walk_e(a, fn)


def _mentions_assumed(e, assume):
    if isinstance(e, E):
        if e.op in ('i', 'v'):
            import re as _re
            a = e.op + ':' + _re.sub(r':(\{[^}]*\}|\d+)\.', ':*.', str(e.args[0]))
            if a in assume:
                return True
        return any(_mentions_assumed(a, assume) for a in e.args)
    if isinstance(e, (list, tuple)):
        return any(_mentions_assumed(a, assume) for a in e)
    return False


def _delta(old, new):
    """new == old + delta (left-nested adds) -> delta, else None"""
    if old is _MISSING:
        return None
    terms = []
    cur = new
    while isinstance(cur, E) and cur.op == 'add':
        if cur.args[0] is old:
            terms.append(cur.args[1])
            out = terms[-1]
            for t in reversed(terms[:-1]):
                out = E('add', out, t, ty=_num_ty(out))
            return out
        terms.append(cur.args[1])
        cur = cur.args[0]
    return None


def _ty(v):
    if isinstance(v, E):
        return v.ty
    if isinstance(v, bool):
        return 'bool'
    if isinstance(v, int):
        return 'int'
    if isinstance(v, float):
        return 'float'
    if isinstance(v, str):
        return 'str'
    if v is None:
        return 'none'
    if isinstance(v, EnumMember):
        return 'enum'
    if isinstance(v, (tuple, list)):
        return 'tuple'
    return None


def _num_ty(v):
    t = _ty(v)
    return t if t in ('int', 'float', 'bool') else 'num'


def _as_load(target):
    import copy
    t = copy.copy(target)
    t.ctx = ast.Load()
    return t


def decl_type(rec, kind):
    """(ty, meta) of a declared input or line."""
    if kind == 'i':
        c = rec.cls
        if c.is_sub_named('BooleanInput'):
            return 'bool', None
        if c.is_sub_named('IntegerInput'):
            return 'int', None
        if c.is_sub_named('FloatInput'):
            return 'float', None
        if c.is_sub_named('EnumInput'):
            e = rec.attrs.get('enum')
            return 'enum', (e, bool(rec.attrs.get('allow_empty'))) if isinstance(e, EnumV) else None
        return 'str', None
    t = rec.attrs.get('_type')
    if isinstance(t, Builtin):
        return {'float': 'float', 'int': 'int', 'bool': 'bool', 'str': 'str'}.get(t.name), None
    if isinstance(t, EnumV):
        return 'enum', (t, True)
    return None, None


# ------------------------------------------------------------------ convenience
def eval_field(cat, fr, field_rec, assume=None, line_oracle=None):
    """All paths of a line definition. Returns (paths, evaluator)."""
    from .formx import field_closure
    clo = field_closure(field_rec)
    ev = LineEval(cat, fr.year, fr, assume=assume, line_oracle=line_oracle)
    paths = ev.run(clo, [field_rec, InputsTok(fr.rec), ValuesTok(fr.rec)])
    return paths, ev
