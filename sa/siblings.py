"""Cross-year siblings: the same line of the same form in two tax years is, far more often than not, the same computation
with other constants.  Where that held on the confirmed baseline it is frozen (sa/data/year_siblings.json: for each
form.line the classes of years whose definitions agree) and must keep holding: an edit that changes one year's definition
and leaves its siblings alone is a slip in that year - or a deliberate change of that year's law, in which case the table
is regenerated after reading it (the same policy as the gate and amount tables).

The signature compared is coarse on purpose: which combinations of inputs/lines an answer can be made of, whether the
definition can refuse, and the set of inputs/lines it reads (year-specific names normalised).  Rewriting the arithmetic,
reordering tests or moving code into a helper does not change it."""
import re

from .lineabs import E


def _norm(s):
    s = re.sub(r'ty20\d\d', 'tyYYYY', s)
    s = re.sub(r'filing_status_2021', 'filing_status', s)
    s = re.sub(r'QualifyingWidowWidower', 'QualifyingSurvivingSpouse', s)
    return s


def _atoms(v, out):
    if isinstance(v, E):
        if v.op in ('i', 'v'):
            out.add(v.op + ':' + re.sub(r':(\{[^}]*\}|\d+)\.', ':*.', str(v.args[0])))
        for a in v.args:
            _atoms(a, out)
    elif isinstance(v, (list, tuple)):
        for a in v:
            _atoms(a, out)


def _lit(c, pol):
    """a condition as a set of (text, polarity) literals: `not x` is x with the other polarity, a true conjunction / false
    disjunction is each of its members; anything else is one literal"""
    if isinstance(c, E):
        if c.op == 'not':
            return _lit(c.args[0], not pol)
        if (c.op == 'and' and pol) or (c.op == 'or' and not pol):
            out = set()
            for a in c.args:
                out |= _lit(a, pol)
            return out
    at = set()
    _atoms(c, at)
    if not at:
        return set()
    return {(re.sub(r':(\{[^}]*\}|\d+)\.', ':*.', str(c)), pol)}


def _coarse(c, pol):
    if isinstance(c, E):
        if c.op == 'not':
            return _coarse(c.args[0], not pol)
        if (c.op == 'and' and pol) or (c.op == 'or' and not pol):
            out = set()
            for a in c.args:
                out |= _coarse(a, pol)
            return out
        if c.op in ('i', 'v'):
            at = set()
            _atoms(c, at)
            return {(a, pol) for a in at}
        if c.op == 'exists_n' and len(c.args) == 2:
            return _coarse(c.args[1], pol) if pol else {(a, None) for a in _atomset(c)}
    return {(a, None) for a in _atomset(c)}


def _atomset(c):
    at = set()
    _atoms(c, at)
    return at


def _gated(v, under, out):
    """{(atom, the conditions it is counted under)} for the atoms of an answer that sit inside a conditional term"""
    if isinstance(v, E):
        if v.op == 'ite' and len(v.args) == 3:
            c, a, b = v.args
            _gated(a, under | _lit(c, True), out)
            _gated(b, under | _lit(c, False), out)
            return
        if v.op in ('i', 'v'):
            at = set()
            _atoms(v, at)
            for a in at:
                out.add((a, tuple(sorted(under))))
            return
        for a in v.args:
            _gated(a, under, out)
    elif isinstance(v, (list, tuple)):
        for a in v:
            _gated(a, under, out)


def signature(d, mir=None):
    """(the combinations of inputs/lines an answer can be made of, can it refuse, what it reads) - deliberately blind to how
    the arithmetic is written: `max(0, a - b)` and `a - b if a > b else 0` have the same signature, `a + b` and "a, or else b"
    do not."""
    combos = set()
    refuses = False
    gated = set()
    special = set()
    when = set()
    for p in d.paths:
        o = p.outcome
        for ev in getattr(p, 'events', ()):
            if ev[0] in ('firstonly', 'collapse', 'exhausted'):
                special.add(ev[0])
        if o.kind == 'ret':
            at = set()
            _atoms(o.value, at)
            _gated(o.value, set(), gated)
            if at:
                # `a if a < b else b` is min(a, b): an order comparison that decides between amounts belongs to the answer
                for (c, pol, _n, _r) in p.guards:
                    if isinstance(c, E) and c.op in ('lt', 'le', 'gt', 'ge'):
                        ga = set()
                        _atoms(c, ga)
                        if ga & at:
                            at |= ga
                combos.add(tuple(sorted(at)))
        elif getattr(o, 'is_ni', False):
            refuses = True
            # under which answers and over which amounts: bare yes/no reads keep their polarity, comparisons only say what they compare
            lits = set()
            for (c, pol, _n, _r) in p.guards:
                lits |= _coarse(c, pol)
            when |= {(t, 'None') for t, pol in lits}          # the union over the refusing paths, without polarity: the order of the tests does not matter
    mir = mir or {}
    def m_(a):
        return mir.get((d.year, a), a)
    combos = {tuple(sorted({_norm(m_(a)) for a in c})) for c in combos}
    # a yes/no line can be written as one expression (`a > 0 or flag`) or as early returns (`if a > 0: return True; return flag`):
    # which atoms sit in the returned expression and which in the tests before it is a matter of style, so for such lines the
    # combinations are not compared (what the line reads, whether it refuses and how it walks the copies still are)
    if getattr(getattr(d, 'rec', None), 'cls', None) is not None and d.rec.cls.name == 'BooleanField':
        combos = set()
        gated = set()
    reads = sorted({_norm(m_(r.atom)) for r in d.reads() if r.atom})
    gates = tuple(sorted((_norm(m_(a)), tuple((_norm(t), pol) for t, pol in u)) for a, u in gated if u))
    return (tuple(sorted(combos)), refuses, tuple(reads), gates, tuple(sorted(special)), tuple(sorted({(_norm(m_(t)), pol) for t, pol in when})))


def mirrors(an):
    """{(year, 'v:F.X'): 'i:F.X'} for lines that simply hand on the input of the same name (reading the line or the input is
    the same thing)"""
    out = {}
    for (y, f, n), d in an.defs.items():
        if n in d.fr.input_map() and d.paths and all(p.outcome.kind == 'ret' and isinstance(p.outcome.value, E) and p.outcome.value.op == 'i'
                                                   and str(p.outcome.value.args[0]) == f'{f}.{n}' and not p.guards for p in d.paths):
            out[(y, f'v:{f}.{n}')] = f'i:{f}.{n}'
    return out


def classes(an):
    """{form.line: [[years with one signature], ...]} for lines present in two or more years"""
    by = {}
    mir = mirrors(an)
    for (y, f, n), d in an.defs.items():
        by.setdefault(f'{f}.{n}', {})[y] = signature(d, mir)
    out = {}
    for k, per in by.items():
        if len(per) < 2:
            continue
        groups = {}
        for y, sg in sorted(per.items()):
            groups.setdefault(sg, []).append(y)
        out[k] = sorted(groups.values())
    return out
