"""E2 core: a small *static* evaluator for the constructor subset of Python that
habutax's form modules and core constructors are written in.

It evaluates module top levels lazily and executes `__init__` bodies over
ordinary Python constants/containers plus a handful of model values (Rec,
Closure, ClassV, EnumV ...).  It never imports or runs repository code; it walks
the repository's syntax trees.  Anything it does not model exactly becomes
`Unknown(reason)`; consumers treat an Unknown that reaches a catalogue table as
an analysis error (fail closed), never as a pass."""
import ast
import os

from .src import AnalysisError, unparse

BUILTIN_NAMES = {
    'str', 'int', 'float', 'bool', 'list', 'dict', 'tuple', 'set', 'range', 'len', 'isinstance',
    'type', 'sum', 'min', 'max', 'sorted', 'abs', 'round', 'hasattr', 'object', 'enumerate', 'zip',
    'any', 'all', 'print', 'getattr', 'super', 'iter', 'repr', 'input', 'open', 'map', 'filter',
    'Exception', 'TypeError', 'ValueError', 'KeyError', 'RuntimeError', 'NotImplementedError',
    'AssertionError', 'KeyboardInterrupt', 'AttributeError', 'IndexError', 'StopIteration',
    'BaseException', 'OSError', 'EOFError', 'True', 'False', 'None', '__file__', '__name__',
    'reversed', 'frozenset', 'divmod', 'pow', 'format', 'id', 'hash', 'callable', 'issubclass',
    'staticmethod', 'classmethod', 'property', 'bytes', 'chr', 'ord', 'vars', 'dir', 'next', 'slice',
    'ImportError', 'ZeroDivisionError', 'NameError', 'LookupError', 'ArithmeticError', 'SystemExit',
    '__class__', 'setattr', 'delattr', 'exit', 'quit', 'locals', 'globals', 'bytearray', 'complex',
    'memoryview', 'FileNotFoundError', 'PermissionError', 'UnicodeError', 'Warning', 'compile',
    'eval', 'exec', '__import__', 'breakpoint', 'ascii', 'bin', 'hex', 'oct', 'NotImplemented',
    'Ellipsis', 'OverflowError', 'RecursionError', 'StopAsyncIteration', 'TimeoutError',
    'GeneratorExit', 'FloatingPointError', 'UnicodeDecodeError', 'UnicodeEncodeError',
    'IsADirectoryError', 'ConnectionError', 'BufferError', 'MemoryError', 'SyntaxError',
    'SystemError', 'TabError', 'IndentationError', 'UnboundLocalError', 'ReferenceError',
    'DeprecationWarning', 'UserWarning', 'RuntimeWarning', 'FutureWarning', '__doc__',
    '__debug__', '__builtins__', '__spec__', '__package__', '__loader__',
}


class Unknown:
    def __init__(self, reason):
        self.reason = reason

    def __repr__(self):
        return f'Unknown({self.reason})'


class Builtin:
    def __init__(self, name):
        self.name = name

    def __repr__(self):
        return f'<builtin {self.name}>'

    def __eq__(self, o):
        return isinstance(o, Builtin) and o.name == self.name

    def __hash__(self):
        return hash(('builtin', self.name))


class ModuleV:
    def __init__(self, name, rel=None):
        self.name = name      # dotted name
        self.rel = rel        # repo-relative path or None for external modules

    def __repr__(self):
        return f'<module {self.name}>'


class ExternalV:
    """A name from outside the repository (stdlib object)."""

    def __init__(self, qual):
        self.qual = qual

    def __repr__(self):
        return f'<external {self.qual}>'

    def __eq__(self, o):
        return isinstance(o, ExternalV) and o.qual == self.qual

    def __hash__(self):
        return hash(('ext', self.qual))


class ClassV:
    def __init__(self, name, node, rel, interp):
        self.name = name
        self.node = node
        self.rel = rel
        self.interp = interp
        self._attrs = None

    def __repr__(self):
        return f'<class {self.name}>'

    def bases(self):
        ns = self.interp.module_ns(self.rel)
        out = []
        for b in self.node.bases:
            v = self.interp.eval_in_ns(b, ns, self.rel)
            out.append(v)
        return out

    def mro(self):
        out, seen, todo = [], set(), [self]
        while todo:
            c = todo.pop(0)
            if not isinstance(c, ClassV) or id(c) in seen:
                continue
            seen.add(id(c))
            out.append(c)
            todo.extend(c.bases())
        return out

    def ext_bases(self):
        out = []
        for c in self.mro():
            for b in c.bases():
                if not isinstance(b, ClassV):
                    out.append(b)
        return out

    def is_sub(self, other):
        return any(c is other for c in self.mro())

    def is_sub_named(self, name):
        return any(c.name == name for c in self.mro())

    def find_method(self, name):
        for c in self.mro():
            for n in c.node.body:
                if isinstance(n, ast.FunctionDef) and n.name == name:
                    return c, n
        return None, None

    def slots(self):
        """the attribute names an instance can hold when EVERY class of the chain declares __slots__ (then there is no
        per-instance __dict__); None when some class does not, i.e. any attribute can be stored"""
        allowed = set()
        for c in self.mro():
            decl = None
            for n in c.node.body:
                if isinstance(n, ast.Assign) and any(isinstance(t, ast.Name) and t.id == '__slots__' for t in n.targets):
                    decl = n.value
            if decl is None:
                return None
            if isinstance(decl, ast.Constant) and isinstance(decl.value, str):
                names = [decl.value]
            elif isinstance(decl, (ast.Tuple, ast.List, ast.Set)) and all(isinstance(e, ast.Constant) and isinstance(e.value, str) for e in decl.elts):
                names = [e.value for e in decl.elts]
            else:
                return None
            if '__dict__' in names:
                return None
            allowed |= set(names)
        if any(not (getattr(b, 'name', None) == 'object' or b is object) for b in self.ext_bases()):
            return None
        return allowed

    def class_attr_node(self, name):
        for c in self.mro():
            for n in c.node.body:
                if isinstance(n, ast.Assign):
                    for t in n.targets:
                        if isinstance(t, ast.Name) and t.id == name:
                            return c, n.value
        return None, None

    def is_enum(self):
        return any(isinstance(b, ExternalV) and b.qual in ('enum.Enum', 'enum.IntEnum') for b in self.ext_bases())

    def enum_members(self):
        names = []
        for n in self.node.body:
            if isinstance(n, ast.Assign) and len(n.targets) == 1 and isinstance(n.targets[0], ast.Name) \
                    and not n.targets[0].id.startswith('_'):
                names.append(n.targets[0].id)
        return names


class EnumV:
    """An enumeration object: created by habutax.enum.make(...) or a class
    deriving from Enum.  Identity is the creating node (two make() calls with the
    same members are different enums, as at run time)."""

    def __init__(self, title, members, ident, via_make):
        self.title = title
        self.members = list(members)     # names, in order
        self.descr = {}
        self.ident = ident               # (rel, lineno)
        self.via_make = via_make

    def __repr__(self):
        return f'<enum {getattr(self, "bound_name", None) or self.title!r}>'

    def member(self, name):
        return EnumMember(self, name)


class EnumMember:
    def __init__(self, enum, name):
        self.enum = enum
        self.name = name

    def __eq__(self, o):
        return isinstance(o, EnumMember) and o.enum is self.enum and o.name == self.name

    def __hash__(self):
        return hash((id(self.enum), self.name))

    def __repr__(self):
        return f'{self.enum.title}.{self.name}'

    @property
    def index(self):
        return self.enum.members.index(self.name)


class Rec:
    """An object built by a repository class constructor (Input, Field,
    PDFField, Form ...): class + the attributes its constructor chain set."""

    def __init__(self, cls, node=None, rel=None):
        self.cls = cls
        self.attrs = {}
        self.node = node
        self.rel = rel

    def __repr__(self):
        return f'<{self.cls.name} {self.attrs.get("_name", self.attrs.get("pdf_field_name", ""))!r}>'

    @property
    def where(self):
        return f'{self.rel}:{getattr(self.node, "lineno", 0)}'


class Closure:
    def __init__(self, node, defaults, scope, rel, interp, name=None):
        self.node = node          # Lambda | FunctionDef
        self.defaults = defaults  # param name -> value (evaluated at creation)
        self.scope = scope        # enclosing Scope (by reference: late binding)
        self.rel = rel
        self.interp = interp
        self.name = name or getattr(node, 'name', '<lambda>')

    def __repr__(self):
        return f'<closure {self.name}@{self.rel}:{self.node.lineno}>'

    def params(self):
        a = self.node.args
        return [x.arg for x in a.posonlyargs + a.args]


class BoundMethod:
    def __init__(self, closure, selfv):
        self.closure = closure
        self.selfv = selfv


class Scope:
    def __init__(self, parent=None, ns=None, rel=None, cls=None):
        self.vars = {}
        self.parent = parent
        self.ns = ns          # module namespace (only on the root of a chain)
        self.rel = rel
        self.cls = cls        # ClassV for __class__ / super()
        self.selfv = None

    def root(self):
        s = self
        while s.parent is not None:
            s = s.parent
        return s


class _LoopContinue(Exception):
    pass


class _LoopBreak(Exception):
    pass


class InterpAbort(Exception):
    def __init__(self, kind, node, rel, msg=''):
        self.kind = kind
        self.node = node
        self.rel = rel
        self.msg = msg
        super().__init__(f'{kind} at {rel}:{getattr(node, "lineno", 0)} {msg}')


class _Return(Exception):
    def __init__(self, value):
        self.value = value


class _Lazy:
    def __init__(self, node, rel, kind):
        self.node = node
        self.rel = rel
        self.kind = kind
        self.busy = False


SAFE_STR_METHODS = {'strip', 'lower', 'upper', 'split', 'format', 'join', 'replace', 'startswith',
                    'endswith', 'lstrip', 'rstrip', 'isalpha', 'isdigit', 'title', 'zfill', 'rjust', 'ljust'}
SAFE_LIST_METHODS = {'append', 'extend', 'index', 'count', 'copy', 'insert', 'remove', 'pop', 'clear', 'sort', 'reverse'}
SAFE_DICT_METHODS = {'items', 'keys', 'values', 'get', 'copy', 'update'}


class Interp:
    def __init__(self, tree):
        self.tree = tree
        self._ns = {}
        self.steps = 0
        self.unknown_log = []

    # ------------------------------------------------------------------ modules
    def resolve_module(self, modname, from_rel=None, level=0):
        if level:
            base = os.path.dirname(from_rel)
            for _ in range(level - 1):
                base = os.path.dirname(base)
            dotted = base.replace('/', '.')
            modname = f'{dotted}.{modname}' if modname else dotted
        rel = self.tree.modname_to_rel(modname)
        return modname, rel

    def module_ns(self, rel):
        if rel in self._ns:
            return self._ns[rel]
        ns = {}
        self._ns[rel] = ns
        mod = self.tree.module(rel)
        ns['__file__'] = self.tree.abspath(rel)
        ns['__name__'] = rel[:-3].replace('/', '.')
        for n in mod.body:
            if isinstance(n, ast.Import):
                for a in n.names:
                    name, mrel = self.resolve_module(a.name)
                    if a.asname:
                        ns[a.asname] = ModuleV(name, mrel)
                    else:
                        top = a.name.split('.')[0]
                        _, trel = self.resolve_module(top)
                        ns[top] = ModuleV(top, trel)
            elif isinstance(n, ast.ImportFrom):
                name, mrel = self.resolve_module(n.module or '', rel, n.level)
                for a in n.names:
                    if a.name == '*':
                        if mrel is None:
                            continue
                        src = self.module_ns(mrel)
                        for k, v in src.items():
                            if not k.startswith('_'):
                                ns[k] = v
                    else:
                        as_ = a.asname or a.name
                        if mrel is None:
                            # maybe a submodule of an external package, or external object
                            ns[as_] = ExternalV(f'{name}.{a.name}')
                        else:
                            sub_name, sub_rel = self.resolve_module(f'{name}.{a.name}')
                            src = self.module_ns(mrel)
                            if a.name in src:
                                ns[as_] = src[a.name]
                            elif sub_rel is not None:
                                ns[as_] = ModuleV(sub_name, sub_rel)
                            else:
                                ns[as_] = Unknown(f'{name} has no name {a.name}')
            elif isinstance(n, ast.ClassDef):
                ns[n.name] = ClassV(n.name, n, rel, self)
            elif isinstance(n, ast.FunctionDef):
                ns[n.name] = _Lazy(n, rel, 'func')
            elif isinstance(n, ast.Assign):
                for t in n.targets:
                    if isinstance(t, ast.Name):
                        ns[t.id] = _Lazy(n.value, rel, 'expr')
                    elif isinstance(t, ast.Tuple):
                        for e in t.elts:
                            if isinstance(e, ast.Name):
                                ns[e.id] = Unknown('tuple assignment at module level')
            elif isinstance(n, ast.AnnAssign) and isinstance(n.target, ast.Name) and n.value is not None:
                ns[n.target.id] = _Lazy(n.value, rel, 'expr')
        return ns

    def ns_lookup(self, ns, name, rel):
        if name not in ns:
            return None, False
        v = ns[name]
        if isinstance(v, _Lazy):
            if v.busy:
                return Unknown(f'cyclic module-level definition {name}'), True
            v.busy = True
            try:
                if v.kind == 'func':
                    root = Scope(ns=self.module_ns(v.rel), rel=v.rel)
                    val = self.make_closure(v.node, root, v.rel)
                else:
                    val = self.eval_in_ns(v.node, self.module_ns(v.rel), v.rel)
            finally:
                v.busy = False
            if isinstance(val, EnumV) and not getattr(val, 'bound_name', None):
                val.bound_name = f'{v.rel[:-3].replace("/", ".")}.{name}'
            # the same lazy object may be star-imported in many namespaces
            for other in self._ns.values():
                for k, ov in list(other.items()):
                    if ov is v:
                        other[k] = val
            return val, True
        return v, True

    def class_attr_value(self, c, attr, node):
        """A class body is executed once: every access to a class attribute sees the same object (a list of Input
        objects written at class level is shared by all instances)."""
        cache = self.__dict__.setdefault('_class_attr_cache', {})
        k = (c.rel, c.name, attr)
        if k not in cache:
            cache[k] = self.eval_in_ns(node, self.module_ns(c.rel), c.rel)
        return cache[k]

    def eval_in_ns(self, node, ns, rel):
        return self.eval(node, Scope(ns=ns, rel=rel))

    # ------------------------------------------------------------------ names
    def lookup(self, name, scope):
        s = scope
        while s is not None:
            if name in s.vars:
                return s.vars[name]
            if s.parent is None:
                break
            s = s.parent
        if name == '__class__':
            c = scope
            while c is not None:
                if c.cls is not None:
                    return c.cls
                c = c.parent
        root = s
        if root.ns is not None:
            v, found = self.ns_lookup(root.ns, name, root.rel)
            if found:
                return v
        if name in BUILTIN_NAMES:
            return Builtin(name)
        return Unknown(f'unbound name {name}')

    def make_closure(self, node, scope, rel, name=None):
        defaults = {}
        a = node.args
        pos = a.posonlyargs + a.args
        for p, d in zip(pos[len(pos) - len(a.defaults):], a.defaults):
            defaults[p.arg] = self.eval(d, scope)
        for p, d in zip(a.kwonlyargs, a.kw_defaults):
            if d is not None:
                defaults[p.arg] = self.eval(d, scope)
        return Closure(node, defaults, scope, rel, self, name)

    # ------------------------------------------------------------------ eval
    def unk(self, reason, node=None, scope=None):
        rel = scope.root().rel if scope is not None else '?'
        u = Unknown(f'{reason} [{rel}:{getattr(node, "lineno", 0)}]')
        return u

    def eval(self, node, scope):
        self.steps += 1
        m = getattr(self, 'e_' + type(node).__name__, None)
        if m is None:
            return self.unk(f'unmodelled expression {type(node).__name__}', node, scope)
        return m(node, scope)

    def e_Constant(self, n, s):
        return n.value

    def e_Name(self, n, s):
        return self.lookup(n.id, s)

    def e_List(self, n, s):
        out = []
        for e in n.elts:
            if isinstance(e, ast.Starred):
                v = self.eval(e.value, s)
                if isinstance(v, (list, tuple)):
                    out.extend(v)
                else:
                    out.append(self.unk('starred non-sequence', e, s))
            else:
                out.append(self.eval(e, s))
        return out

    def e_Tuple(self, n, s):
        return tuple(self.e_List(n, s))

    def e_Set(self, n, s):
        vals = self.e_List(n, s)
        try:
            return set(vals)
        except TypeError:
            return self.unk('unhashable set element', n, s)

    def e_Dict(self, n, s):
        d = {}
        for k, v in zip(n.keys, n.values):
            if k is None:
                inner = self.eval(v, s)
                if isinstance(inner, dict):
                    d.update(inner)
                else:
                    return self.unk('dict ** of non-dict', n, s)
                continue
            kv = self.eval(k, s)
            try:
                hash(kv)
            except TypeError:
                return self.unk('unhashable dict key', k, s)
            if isinstance(kv, Unknown) or (isinstance(kv, tuple) and any(isinstance(x, Unknown) for x in kv)):
                kv = DictKeyUnknown(kv, k)
            d[kv] = self.eval(v, s)
        return d

    def e_Lambda(self, n, s):
        return self.make_closure(n, s, s.root().rel)

    def e_JoinedStr(self, n, s):
        parts = []
        for v in n.values:
            if isinstance(v, ast.Constant):
                parts.append(str(v.value))
            else:
                val = self.eval(v.value, s)
                if isinstance(val, Unknown):
                    return val
                spec = ''
                if v.format_spec is not None:
                    spec = self.eval(v.format_spec, s)
                    if isinstance(spec, Unknown):
                        return spec
                if not isinstance(val, (str, int, float, bool, type(None), EnumMember)):
                    return self.unk(f'f-string over {type(val).__name__}', v, s)
                if isinstance(val, EnumMember):
                    val = val.name if val.enum.via_make else f'{val.enum.title}.{val.name}'
                try:
                    if v.conversion == ord('r'):
                        val = repr(val)
                    elif v.conversion == ord('s'):
                        val = str(val)
                    parts.append(format(val, spec))
                except Exception as e:
                    return self.unk(f'format error {e}', v, s)
        return ''.join(parts)

    def e_FormattedValue(self, n, s):
        return self.e_JoinedStr(ast.JoinedStr(values=[n]), s)

    def e_IfExp(self, n, s):
        t = self.eval(n.test, s)
        if isinstance(t, Unknown):
            return t
        return self.eval(n.body if self.truth(t) else n.orelse, s)

    def truth(self, v):
        if isinstance(v, (Rec, Closure, ClassV, EnumV, EnumMember, ModuleV, Builtin, ExternalV, SolverTok)):
            return True
        return bool(v)

    def e_BoolOp(self, n, s):
        last = None
        for v in n.values:
            last = self.eval(v, s)
            if isinstance(last, Unknown):
                return last
            if isinstance(n.op, ast.And) and not self.truth(last):
                return last
            if isinstance(n.op, ast.Or) and self.truth(last):
                return last
        return last

    def e_UnaryOp(self, n, s):
        v = self.eval(n.operand, s)
        if isinstance(v, Unknown):
            return v
        try:
            if isinstance(n.op, ast.Not):
                return not self.truth(v)
            if isinstance(n.op, ast.USub):
                return -v
            if isinstance(n.op, ast.UAdd):
                return +v
        except Exception as e:
            return self.unk(f'unary op failed: {e}', n, s)
        return self.unk('unmodelled unary op', n, s)

    def e_BinOp(self, n, s):
        a = self.eval(n.left, s)
        b = self.eval(n.right, s)
        if isinstance(a, Unknown):
            return a
        if isinstance(b, Unknown):
            return b
        ok = (int, float, str, bool, list, tuple)
        if not isinstance(a, ok) or not isinstance(b, ok):
            return self.unk('binary op on model values', n, s)
        try:
            op = n.op
            if isinstance(op, ast.Add):
                return a + b
            if isinstance(op, ast.Sub):
                return a - b
            if isinstance(op, ast.Mult):
                return a * b
            if isinstance(op, ast.Div):
                return a / b
            if isinstance(op, ast.FloorDiv):
                return a // b
            if isinstance(op, ast.Mod):
                return a % b
            if isinstance(op, ast.Pow):
                return a ** b
        except Exception as e:
            return self.unk(f'binary op failed: {e}', n, s)
        return self.unk('unmodelled binary op', n, s)

    def e_Compare(self, n, s):
        left = self.eval(n.left, s)
        for op, rn in zip(n.ops, n.comparators):
            right = self.eval(rn, s)
            if isinstance(left, Unknown):
                return left
            if isinstance(right, Unknown):
                return right
            r = self.compare(op, left, right, n, s)
            if isinstance(r, Unknown) or not r:
                return r
            left = right
        return True

    def compare(self, op, a, b, n, s):
        try:
            if isinstance(op, ast.Eq):
                return self.equal(a, b)
            if isinstance(op, ast.NotEq):
                return not self.equal(a, b)
            if isinstance(op, ast.Is):
                return self.same(a, b)
            if isinstance(op, ast.IsNot):
                return not self.same(a, b)
            if isinstance(op, ast.In):
                return self.contains(b, a, n, s)
            if isinstance(op, ast.NotIn):
                r = self.contains(b, a, n, s)
                return r if isinstance(r, Unknown) else not r
            if isinstance(op, ast.Lt):
                return a < b
            if isinstance(op, ast.LtE):
                return a <= b
            if isinstance(op, ast.Gt):
                return a > b
            if isinstance(op, ast.GtE):
                return a >= b
        except Exception as e:
            return self.unk(f'comparison failed: {e}', n, s)
        return self.unk('unmodelled comparison', n, s)

    def equal(self, a, b):
        if isinstance(a, (Rec, Closure, ClassV, EnumV, ModuleV)) or isinstance(b, (Rec, Closure, ClassV, EnumV, ModuleV)):
            return a is b
        return a == b

    def same(self, a, b):
        if a is None or b is None or isinstance(a, bool) or isinstance(b, bool):
            return a is b
        if isinstance(a, EnumMember) or isinstance(a, Builtin) or isinstance(a, ExternalV):
            return a == b
        return a is b

    def contains(self, container, item, n, s):
        if isinstance(container, (list, tuple, set)):
            return any(self.equal(item, x) for x in container)
        if isinstance(container, dict):
            return any(self.equal(item, x) for x in container.keys())
        if isinstance(container, str) and isinstance(item, str):
            return item in container
        return self.unk(f'membership in {type(container).__name__}', n, s)

    def e_Subscript(self, n, s):
        base = self.eval(n.value, s)
        if isinstance(base, Unknown):
            return base
        if isinstance(n.slice, ast.Slice):
            lo = self.eval(n.slice.lower, s) if n.slice.lower else None
            hi = self.eval(n.slice.upper, s) if n.slice.upper else None
            st = self.eval(n.slice.step, s) if n.slice.step else None
            if any(isinstance(x, Unknown) for x in (lo, hi, st)):
                return self.unk('unknown slice bound', n, s)
            if isinstance(base, (list, tuple, str)):
                try:
                    return base[lo:hi:st]
                except Exception as e:
                    return self.unk(f'slice failed {e}', n, s)
            return self.unk('slice of model value', n, s)
        k = self.eval(n.slice, s)
        if isinstance(k, Unknown):
            return k
        if isinstance(base, dict):
            for kk, vv in base.items():
                if self.equal(kk, k):
                    return vv
            raise InterpAbort('KeyError', n, s.root().rel, f'{k!r}')
        if isinstance(base, (list, tuple, str)):
            try:
                return base[k]
            except Exception as e:
                raise InterpAbort('IndexError', n, s.root().rel, str(e))
        if isinstance(base, EnumV):
            if k in base.members:
                return base.member(k)
            raise InterpAbort('KeyError', n, s.root().rel, f'enum member {k!r}')
        return self.unk(f'subscript of {type(base).__name__}', n, s)

    def e_ListComp(self, n, s):
        out = []
        r = self._comp(n.generators, 0, Scope(parent=s), lambda sc: out.append(self.eval(n.elt, sc)))
        return r if isinstance(r, Unknown) else out

    def e_GeneratorExp(self, n, s):
        return self.e_ListComp(n, s)

    def e_SetComp(self, n, s):
        out = self.e_ListComp(n, s)
        if isinstance(out, Unknown):
            return out
        try:
            return set(out)
        except TypeError:
            return self.unk('unhashable set element', n, s)

    def e_DictComp(self, n, s):
        out = {}

        def add(sc):
            out[self.eval(n.key, sc)] = self.eval(n.value, sc)
        try:
            r = self._comp(n.generators, 0, Scope(parent=s), add)
        except TypeError:
            return self.unk('unhashable dict key', n, s)
        return r if isinstance(r, Unknown) else out

    def _comp(self, gens, idx, sc, emit):
        if idx == len(gens):
            emit(sc)
            return None
        g = gens[idx]
        it = self.iterate(self.eval(g.iter, sc), g.iter, sc)
        if isinstance(it, Unknown):
            return it
        for item in it:
            r = self.bind_target(g.target, item, sc)
            if isinstance(r, Unknown):
                return r
            ok = True
            for cond in g.ifs:
                c = self.eval(cond, sc)
                if isinstance(c, Unknown):
                    return c
                if not self.truth(c):
                    ok = False
                    break
            if ok:
                r = self._comp(gens, idx + 1, sc, emit)
                if isinstance(r, Unknown):
                    return r
        return None

    def iterate(self, v, node, s):
        if isinstance(v, Unknown):
            return v
        if isinstance(v, (list, tuple, str, range, set)):
            return list(v)
        if isinstance(v, dict):
            return list(v.keys())
        if isinstance(v, DictItems):
            return v.items
        if isinstance(v, EnumV):
            return [v.member(nm) for nm in v.members]      # an enumeration class iterates over its members in definition order
        return self.unk(f'iteration over {type(v).__name__}', node, s)

    def bind_target(self, t, v, s):
        if isinstance(t, ast.Name):
            s.vars[t.id] = v
            return None
        if isinstance(t, (ast.Tuple, ast.List)):
            if isinstance(v, (tuple, list)) and len(v) == len(t.elts):
                for e, x in zip(t.elts, v):
                    r = self.bind_target(e, x, s)
                    if isinstance(r, Unknown):
                        return r
                return None
            if isinstance(v, (tuple, list)) and not any(isinstance(e, ast.Starred) for e in t.elts):
                # a concrete sequence of the wrong length: Python raises ValueError here
                raise InterpAbort('ValueError', t, s.root().rel,
                                  f'{"not enough" if len(v) < len(t.elts) else "too many"} values to unpack (expected {len(t.elts)}, got {len(v)})')
            return self.unk('cannot unpack', t, s)
        return self.unk('unmodelled assignment target', t, s)

    # ------------------------------------------------------------ attributes
    def e_Attribute(self, n, s):
        base = self.eval(n.value, s)
        return self.getattr(base, n.attr, n, s)

    def getattr(self, base, attr, n, s):
        if isinstance(base, Unknown):
            return base
        if isinstance(base, ModuleV):
            if base.rel is None:
                return ExternalV(f'{base.name}.{attr}')
            ns = self.module_ns(base.rel)
            v, found = self.ns_lookup(ns, attr, base.rel)
            if found:
                return v
            sub_name, sub_rel = self.resolve_module(f'{base.name}.{attr}')
            if sub_rel:
                return ModuleV(sub_name, sub_rel)
            raise InterpAbort('AttributeError', n, s.root().rel, f'module {base.name} has no attribute {attr}')
        if isinstance(base, ExternalV):
            return ExternalV(f'{base.qual}.{attr}')
        if isinstance(base, ClassV):
            if base.is_enum():
                if attr in base.enum_members():
                    return self.class_enum(base).member(attr)
            c, node = base.class_attr_node(attr)
            if node is not None:
                return self.class_attr_value(c, attr, node)
            c, m = base.find_method(attr)
            if m is not None:
                return self.make_closure(m, Scope(ns=self.module_ns(c.rel), rel=c.rel, cls=c), c.rel)
            if attr == '__name__':
                return base.name
            raise InterpAbort('AttributeError', n, s.root().rel, f'class {base.name} has no attribute {attr}')
        if isinstance(base, EnumV):
            if attr in base.members:
                return base.member(attr)
            if attr == '__members__':
                return {m: base.member(m) for m in base.members}
            raise InterpAbort('AttributeError', n, s.root().rel, f'enum {base.title!r} has no member {attr}')
        if isinstance(base, EnumMember):
            if attr == 'name':
                return base.name
            if attr == 'value':
                return base.enum.descr.get(base.name, base.index)
            return self.unk(f'attribute {attr} of enum member', n, s)
        if isinstance(base, Rec):
            if attr in base.attrs:
                return base.attrs[attr]
            c, m = base.cls.find_method(attr)
            if m is not None:
                clo = self.make_closure(m, Scope(ns=self.module_ns(c.rel), rel=c.rel, cls=c), c.rel)
                return BoundMethod(clo, base)
            c, node = base.cls.class_attr_node(attr)
            if node is not None:
                return self.class_attr_value(c, attr, node)
            if attr == '__class__':
                return base.cls
            # EnumInput.__getattr__ forwards to its enum
            c, ga = base.cls.find_method('__getattr__')
            if ga is not None:
                return self.unk(f'__getattr__ fallback for {attr}', n, s)
            raise InterpAbort('AttributeError', n, s.root().rel, f'{base.cls.name} object has no attribute {attr}')
        if type(base).__name__ == 'Pattern' and attr in ('match', 'fullmatch', 'search'):
            return NativeMethod(base, attr)
        if type(base).__name__ == 'Match' and attr in ('group', 'groups', 'start', 'end', 'span'):
            return NativeMethod(base, attr)
        if isinstance(base, str) and attr in SAFE_STR_METHODS:
            return NativeMethod(base, attr)
        if isinstance(base, list) and attr in SAFE_LIST_METHODS:
            return NativeMethod(base, attr)
        if isinstance(base, dict) and attr in SAFE_DICT_METHODS:
            return NativeMethod(base, attr)
        return self.unk(f'attribute {attr} of {type(base).__name__}', n, s)

    def class_enum(self, cls):
        if cls._attrs is None:
            cls._attrs = EnumV(cls.name, cls.enum_members(), (cls.rel, cls.node.lineno), via_make=False)
        return cls._attrs

    # ------------------------------------------------------------------ calls
    def e_Call(self, n, s):
        # super().__init__(...) and super().method(...)
        if isinstance(n.func, ast.Attribute) and isinstance(n.func.value, ast.Call) \
                and isinstance(n.func.value.func, ast.Name) and n.func.value.func.id == 'super' \
                and not n.func.value.args:
            return self.call_super(n, s)
        f = self.eval(n.func, s)
        args = []
        for a in n.args:
            if isinstance(a, ast.Starred):
                v = self.eval(a.value, s)
                if isinstance(v, (list, tuple)):
                    args.extend(v)
                else:
                    return self.unk('starred call argument', a, s)
            else:
                args.append(self.eval(a, s))
        kwargs = {}
        for k in n.keywords:
            if k.arg is None:
                v = self.eval(k.value, s)
                if isinstance(v, dict) and all(isinstance(x, str) for x in v):
                    kwargs.update(v)
                else:
                    return self.unk('** of non-dict', k, s)
            else:
                kwargs[k.arg] = self.eval(k.value, s)
        return self.call(f, args, kwargs, n, s)

    def call_super(self, n, s):
        cls = None
        c = s
        selfv = None
        while c is not None:
            if cls is None and c.cls is not None:
                cls = c.cls
            if selfv is None and c.selfv is not None:
                selfv = c.selfv
            c = c.parent
        if cls is None or selfv is None:
            return self.unk('super() outside a method', n, s)
        meth = n.func.attr
        args = [self.eval(a, s) for a in n.args]
        kwargs = {}
        for k in n.keywords:
            if k.arg is None:
                v = self.eval(k.value, s)
                if isinstance(v, dict):
                    kwargs.update(v)
                else:
                    return self.unk('** of non-dict', k, s)
            else:
                kwargs[k.arg] = self.eval(k.value, s)
        mro = selfv.cls.mro() if isinstance(selfv, Rec) else cls.mro()
        # continue after `cls` in the MRO of the instance's class
        idx = next((i for i, x in enumerate(mro) if x is cls), None)
        if idx is None:
            return self.unk('super(): class not in MRO', n, s)
        for c2 in mro[idx + 1:]:
            for m in c2.node.body:
                if isinstance(m, ast.FunctionDef) and m.name == meth:
                    clo = self.make_closure(m, Scope(ns=self.module_ns(c2.rel), rel=c2.rel, cls=c2), c2.rel)
                    return self.call_closure(clo, [selfv] + args, kwargs, n, s)
        if meth == '__init__':
            return None     # object.__init__
        return self.unk(f'super().{meth} not found', n, s)

    def call(self, f, args, kwargs, n, s):
        if isinstance(f, Unknown):
            return f
        if isinstance(f, Closure):
            return self.call_closure(f, args, kwargs, n, s)
        if isinstance(f, BoundMethod):
            return self.call_closure(f.closure, [f.selfv] + args, kwargs, n, s)
        if isinstance(f, ClassV):
            return self.instantiate(f, args, kwargs, n, s)
        if isinstance(f, NativeMethod):
            return f.call(self, args, kwargs, n, s)
        if isinstance(f, Builtin):
            return self.call_builtin(f.name, args, kwargs, n, s)
        if isinstance(f, ExternalV):
            return self.call_external(f.qual, args, kwargs, n, s)
        return self.unk(f'call of {type(f).__name__}', n, s)

    def instantiate(self, cls, args, kwargs, n, s):
        rec = Rec(cls, n, s.root().rel)
        if any(isinstance(b, ExternalV) and b.qual.startswith(('builtins.Exception', 'Exception')) for b in cls.ext_bases()) \
                or any(isinstance(b, Builtin) and b.name.endswith(('Exception', 'Error')) for b in cls.ext_bases()):
            rec.attrs['args'] = tuple(args)
        c, init = cls.find_method('__init__')
        if init is not None:
            clo = self.make_closure(init, Scope(ns=self.module_ns(c.rel), rel=c.rel, cls=c), c.rel)
            self.call_closure(clo, [rec] + args, kwargs, n, s)
        return rec

    def call_closure(self, clo, args, kwargs, n, s):
        if self.steps > 5_000_000:
            raise AnalysisError('constructor evaluation exceeded its step budget')
        node = clo.node
        a = node.args
        sc = Scope(parent=clo.scope)
        pos = [x.arg for x in a.posonlyargs + a.args]
        bound = {}
        if len(args) > len(pos) and a.vararg is None:
            raise InterpAbort('TypeError', n, s.root().rel, f'{clo.name}() takes {len(pos)} positional arguments but {len(args)} were given')
        for name, v in zip(pos, args):
            bound[name] = v
        if a.vararg is not None:
            bound[a.vararg.arg] = tuple(args[len(pos):])
        extra = {}
        kwonly = [x.arg for x in a.kwonlyargs]
        for k, v in kwargs.items():
            if k in pos or k in kwonly:
                if k in bound:
                    raise InterpAbort('TypeError', n, s.root().rel, f'{clo.name}() got multiple values for argument {k}')
                bound[k] = v
            elif a.kwarg is not None:
                extra[k] = v
            else:
                raise InterpAbort('TypeError', n, s.root().rel, f'{clo.name}() got an unexpected keyword argument {k!r}')
        if a.kwarg is not None:
            bound[a.kwarg.arg] = extra
        for name in pos + kwonly:
            if name not in bound:
                if name in clo.defaults:
                    d = clo.defaults[name]
                    bound[name] = d
                else:
                    raise InterpAbort('TypeError', n, s.root().rel, f'{clo.name}() missing required argument {name!r}')
        sc.vars.update(bound)
        if pos and clo.scope.cls is not None and clo.scope.parent is None:
            sc.selfv = bound.get(pos[0])
        if isinstance(node, ast.Lambda):
            return self.eval(node.body, sc)
        try:
            self.exec_block(node.body, sc)
        except _Return as r:
            return r.value
        return None

    def call_builtin(self, name, args, kwargs, n, s):
        if any(isinstance(a, Unknown) for a in args):
            return next(a for a in args if isinstance(a, Unknown))
        try:
            if name == 'range':
                return range(*args)
            if name == 'len':
                if isinstance(args[0], (list, tuple, str, dict, set, range)):
                    return len(args[0])
                return self.unk('len of model value', n, s)
            if name in ('str',):
                v = args[0] if args else ''
                if isinstance(v, EnumMember):
                    return v.name if v.enum.via_make else f'{v.enum.title}.{v.name}'
                if isinstance(v, (str, int, float, bool, type(None))):
                    return str(v)
                return self.unk('str of model value', n, s)
            if name in ('int', 'float', 'bool', 'abs', 'round', 'min', 'max', 'sum', 'sorted', 'list', 'tuple', 'set', 'dict', 'any', 'all', 'enumerate', 'zip', 'reversed'):
                plain = (int, float, str, bool, list, tuple, set, dict, range, type(None))
                if all(isinstance(a, plain) for a in args) and not kwargs:
                    r = {'int': int, 'float': float, 'bool': bool, 'abs': abs, 'round': round, 'min': min, 'max': max,
                         'sum': sum, 'sorted': sorted, 'list': list, 'tuple': tuple, 'set': set, 'dict': dict,
                         'any': any, 'all': all, 'enumerate': enumerate, 'zip': zip, 'reversed': reversed}[name](*args)
                    if name in ('enumerate', 'zip', 'reversed'):
                        r = list(r)
                    return r
                if name in ('list', 'tuple') and isinstance(args[0], DictItems):
                    return list(args[0].items)
                return self.unk(f'{name} over model values', n, s)
            if name == 'isinstance':
                return self.isinstance(args[0], args[1], n, s)
            if name == 'type':
                return self.typeof(args[0], n, s)
            if name == 'hasattr':
                if isinstance(args[0], ClassV):
                    c, node = args[0].class_attr_node(args[1])
                    c2, m = args[0].find_method(args[1])
                    return node is not None or m is not None
                return self.unk('hasattr of model value', n, s)
            if name == 'getattr' and len(args) in (2, 3) and isinstance(args[1], str):
                obj = args[0]
                if isinstance(obj, Rec):
                    if args[1] in obj.attrs:
                        return obj.attrs[args[1]]
                    c, node = obj.cls.class_attr_node(args[1])
                    if node is not None:
                        return self.class_attr_value(c, args[1], node)
                    c2, m = obj.cls.find_method(args[1])
                    if m is None and len(args) == 3 and obj.cls.find_method('__getattr__')[1] is None:
                        return args[2]
                if isinstance(obj, ClassV):
                    c, node = obj.class_attr_node(args[1])
                    if node is not None:
                        return self.class_attr_value(c, args[1], node)
                    if obj.find_method(args[1])[1] is None and len(args) == 3:
                        return args[2]
                return self.unk('getattr of model value', n, s)
            if name == 'print':
                return None
        except InterpAbort:
            raise
        except Exception as e:
            raise InterpAbort(type(e).__name__, n, s.root().rel, str(e))
        return self.unk(f'builtin {name} not modelled', n, s)

    def typeof(self, v, n, s):
        if isinstance(v, Rec):
            return v.cls
        for t in (bool, int, float, str, list, dict, tuple, set):
            if type(v) is t:
                return Builtin(t.__name__)
        if v is None:
            return Builtin('NoneType')
        if isinstance(v, EnumMember):
            return v.enum
        return self.unk('type of model value', n, s)

    def isinstance(self, v, t, n, s):
        if isinstance(t, (tuple, list)):
            rs = [self.isinstance(v, x, n, s) for x in t]
            if any(r is True for r in rs):
                return True
            u = [r for r in rs if isinstance(r, Unknown)]
            return u[0] if u else False
        if isinstance(t, Builtin):
            py = {'str': str, 'int': int, 'float': float, 'bool': bool, 'list': list, 'dict': dict,
                  'tuple': tuple, 'set': set, 'object': object}.get(t.name)
            if py is None:
                return self.unk(f'isinstance against {t.name}', n, s)
            if isinstance(v, (Rec, Closure, ClassV, EnumV, EnumMember, ModuleV)):
                return py is object
            return isinstance(v, py)
        if isinstance(t, ClassV):
            return isinstance(v, Rec) and v.cls.is_sub(t)
        if isinstance(t, EnumV):
            return isinstance(v, EnumMember) and v.enum is t
        if isinstance(t, ExternalV):
            if isinstance(v, Rec):
                return any(isinstance(b, ExternalV) and b.qual == t.qual for b in v.cls.ext_bases())
            return self.unk(f'isinstance against external {t.qual}', n, s)
        return self.unk('isinstance against model value', n, s)

    def call_external(self, qual, args, kwargs, n, s):
        if any(isinstance(a, Unknown) for a in args):
            return next(a for a in args if isinstance(a, Unknown))
        if qual == 'os.path.join' and all(isinstance(a, str) for a in args):
            return os.path.join(*args)
        if qual == 'os.path.dirname' and isinstance(args[0], str):
            return os.path.dirname(args[0])
        if qual == 'os.path.abspath' and isinstance(args[0], str):
            return args[0]
        if qual == 'types.MethodType' and len(args) == 2:
            if isinstance(args[0], Closure):
                return BoundMethod(args[0], args[1])
            return self.unk('MethodType over non-function', n, s)
        if qual == 'enum.auto':
            return self.unk('enum.auto()', n, s)
        if qual == 'enum.Enum' and len(args) == 2 and isinstance(args[0], str) and isinstance(args[1], dict):
            mixin = kwargs.get('type')
            e = EnumV(args[0], list(args[1].keys()), (s.root().rel, n.lineno), via_make=_str_is_name(mixin))
            e.descr = dict(args[1])
            e.type_mixin = mixin
            return e
        if qual == 'math.ceil' and isinstance(args[0], (int, float)):
            import math
            return math.ceil(args[0])
        if qual in ('re.compile', 're.match', 're.fullmatch', 're.search') and args and all(isinstance(a, (str, int)) for a in args) and not kwargs:
            # pure functions of constant texts: evaluated for real (a name check in a constructor decides whether the form can be built)
            import re as _re
            try:
                return getattr(_re, qual.split('.')[1])(*args)
            except Exception as e:
                raise InterpAbort(type(e).__name__, n, s.root().rel, str(e))
        return Opaque(qual, args, kwargs)

    # -------------------------------------------------------------- statements
    def exec_block(self, stmts, sc):
        for st in stmts:
            self.exec(st, sc)

    def exec(self, st, sc):
        self.steps += 1
        rel = sc.root().rel
        if isinstance(st, ast.Expr):
            self.eval(st.value, sc)
        elif isinstance(st, ast.Assign):
            v = self.eval(st.value, sc)
            for t in st.targets:
                self.assign(t, v, sc)
        elif isinstance(st, ast.AnnAssign):
            if st.value is not None:
                self.assign(st.target, self.eval(st.value, sc), sc)
        elif isinstance(st, ast.AugAssign):
            cur = self.eval(ast.copy_location(_load(st.target), st.target), sc)
            rhs = self.eval(st.value, sc)
            if isinstance(cur, list) and isinstance(st.op, ast.Add) and isinstance(rhs, (list, tuple)):
                cur.extend(rhs)       # in-place, like list.__iadd__
                return
            if isinstance(cur, set) and isinstance(st.op, ast.BitOr) and isinstance(rhs, set):
                cur |= rhs
                return
            fake = ast.BinOp(left=ast.Constant(cur), op=st.op, right=ast.Constant(rhs))
            ast.copy_location(fake, st)
            if isinstance(cur, Unknown) or isinstance(rhs, Unknown):
                v = cur if isinstance(cur, Unknown) else rhs
            else:
                v = self.e_BinOp(fake, sc)
            self.assign(st.target, v, sc)
        elif isinstance(st, ast.If):
            t = self.eval(st.test, sc)
            if isinstance(t, Unknown):
                raise InterpAbort('undecided-branch', st, rel, f'{unparse(st.test)}: {t.reason}')
            self.exec_block(st.body if self.truth(t) else st.orelse, sc)
        elif isinstance(st, ast.For):
            it = self.iterate(self.eval(st.iter, sc), st.iter, sc)
            if isinstance(it, Unknown):
                raise InterpAbort('undecided-loop', st, rel, it.reason)
            broke = False
            for item in it:
                r = self.bind_target(st.target, item, sc)
                if isinstance(r, Unknown):
                    raise InterpAbort('undecided-loop', st, rel, r.reason)
                try:
                    self.exec_block(st.body, sc)
                except _LoopContinue:
                    continue
                except _LoopBreak:
                    broke = True
                    break
            if not broke:
                self.exec_block(st.orelse, sc)
        elif isinstance(st, ast.Continue):
            raise _LoopContinue()
        elif isinstance(st, ast.Break):
            raise _LoopBreak()
        elif isinstance(st, ast.Assert):
            t = self.eval(st.test, sc)
            if isinstance(t, Unknown):
                raise InterpAbort('undecided-assert', st, rel, f'{unparse(st.test)}: {t.reason}')
            if not self.truth(t):
                raise InterpAbort('AssertionError', st, rel, unparse(st.test))
        elif isinstance(st, ast.FunctionDef):
            sc.vars[st.name] = self.make_closure(st, sc, rel)
        elif isinstance(st, ast.Return):
            raise _Return(self.eval(st.value, sc) if st.value is not None else None)
        elif isinstance(st, ast.Pass):
            pass
        elif isinstance(st, ast.Raise):
            exc = self.eval(st.exc, sc) if st.exc is not None else None
            kind = exc.cls.name if isinstance(exc, Rec) else (unparse(st.exc) if st.exc is not None else 're-raise')
            raise InterpAbort(kind, st, rel, 'raise statement reached')
        elif isinstance(st, ast.Import):
            # `import re` inside a function binds the module locally, exactly as at module level
            for a in st.names:
                name, mrel = self.resolve_module(a.name)
                if a.asname:
                    sc.vars[a.asname] = ModuleV(name, mrel)
                else:
                    top = a.name.split('.')[0]
                    _, trel = self.resolve_module(top)
                    sc.vars[top] = ModuleV(top, trel)
        elif isinstance(st, ast.ImportFrom):
            raise InterpAbort('unmodelled-statement', st, rel, 'from-import inside a function')
        else:
            raise InterpAbort('unmodelled-statement', st, rel, type(st).__name__)

    def assign(self, t, v, sc):
        if isinstance(t, ast.Name):
            sc.vars[t.id] = v
        elif isinstance(t, (ast.Tuple, ast.List)):
            r = self.bind_target(t, v, sc)
            if isinstance(r, Unknown):
                for e in ast.walk(t):
                    if isinstance(e, ast.Name):
                        sc.vars[e.id] = r
        elif isinstance(t, ast.Attribute):
            base = self.eval(t.value, sc)
            if isinstance(base, Rec):
                allowed = base.cls.slots() if isinstance(base.cls, ClassV) else None
                if allowed is not None and t.attr not in allowed:
                    raise InterpAbort('AttributeError', t, sc.root().rel, f"'{base.cls.name}' object has no attribute '{t.attr}' (every class of its chain declares __slots__, none lists it)")
                base.attrs[t.attr] = v
            else:
                raise InterpAbort('unmodelled-statement', t, sc.root().rel, f'attribute store on {type(base).__name__}')
        elif isinstance(t, ast.Subscript):
            base = self.eval(t.value, sc)
            k = self.eval(t.slice, sc)
            if isinstance(base, (dict, list)) and not isinstance(k, Unknown):
                try:
                    base[k] = v
                except Exception as e:
                    raise InterpAbort(type(e).__name__, t, sc.root().rel, str(e))
            else:
                raise InterpAbort('unmodelled-statement', t, sc.root().rel, 'subscript store')
        else:
            raise InterpAbort('unmodelled-statement', t, sc.root().rel, 'assignment target')


def _str_is_name(mixin):
    """True when the enum's type mixin defines __str__ as `return self.name`
    (then str(member) is the key that Enum[...] looks up)."""
    if not isinstance(mixin, ClassV):
        return False
    c, m = mixin.find_method('__str__')
    if m is None:
        return False
    body = [b for b in m.body if not (isinstance(b, ast.Expr) and isinstance(b.value, ast.Constant))]
    return len(body) == 1 and isinstance(body[0], ast.Return) and unparse(body[0].value) == f'{m.args.args[0].arg}.name'


def _load(target):
    import copy
    t = copy.copy(target)
    t.ctx = ast.Load()
    return t


class DictKeyUnknown:
    def __init__(self, v, node):
        self.v = v
        self.node = node

    def __hash__(self):
        return id(self)


class DictItems:
    def __init__(self, items):
        self.items = items


class SolverTok:
    def __repr__(self):
        return '<solver>'


class Opaque:
    """Result of a call into the standard library that the analyser does not
    need the value of (e.g. re.compile)."""

    def __init__(self, qual, args, kwargs):
        self.qual = qual
        self.args = args
        self.kwargs = kwargs

    def __repr__(self):
        return f'<opaque {self.qual}>'


class NativeMethod:
    def __init__(self, obj, name):
        self.obj = obj
        self.name = name

    def call(self, interp, args, kwargs, n, s):
        if any(isinstance(a, Unknown) for a in args):
            return next(a for a in args if isinstance(a, Unknown))
        if isinstance(self.obj, dict) and self.name == 'items':
            return DictItems([(k, v) for k, v in self.obj.items()])
        if isinstance(self.obj, dict) and self.name in ('keys', 'values'):
            return list(getattr(self.obj, self.name)())
        if isinstance(self.obj, str) and self.name == 'format':
            ok = (str, int, float, bool, type(None))
            if not all(isinstance(a, ok) for a in list(args) + list(kwargs.values())):
                return interp.unk('str.format over model values', n, s)
        if isinstance(self.obj, str) and self.name == 'join':
            if not (isinstance(args[0], (list, tuple)) and all(isinstance(a, str) for a in args[0])):
                return interp.unk('str.join over model values', n, s)
        try:
            return getattr(self.obj, self.name)(*args, **kwargs)
        except Exception as e:
            raise InterpAbort(type(e).__name__, n, s.root().rel, str(e))
