#!/venv/bin/python
"""Regenerates /verif/MANIFEST.json from the table below (kept in one place so
that the manifest is always schema-valid and in step with the checks)."""
import json
import os

VERIF = os.path.dirname(os.path.dirname(os.path.abspath(__file__)))
PY = '/venv/bin/python'

# pid -> dict(text, note, technique, design_ref)   (claimed checks)
CLAIMED = {}
# pid -> reason (not claimed)
NOT_APPLICABLE = {}


def claim(pid, text, note, technique, ref):
    CLAIMED[pid] = dict(text=text, note=note, technique=technique, ref=ref)


def na(pid, reason):
    NOT_APPLICABLE[pid] = reason


from sa_manifest_table import fill  # noqa: E402


def main():
    fill(claim, na)
    props = [json.loads(l)['id'] for l in open(os.path.join(VERIF, 'properties.jsonl')) if l.strip()]
    checks = []
    for pid in props:
        if pid in CLAIMED:
            c = CLAIMED[pid]
            checks.append({
                'property_id': pid,
                'quick_cmd': f'{PY} /verif/sa/run.py {pid} --tier quick',
                'thorough_cmd': f'{PY} /verif/sa/run.py {pid} --tier thorough',
                'evidence_file': f'/verif/evidence/{pid}.json',
                'replay_cmd_template': f'{PY} /verif/sa/run.py {pid} --replay {{path}}',
                'engine': 'sa',
                'level_claimed': {'category': 'other', 'text': c['text'], 'design_ref': c['ref']},
                'level_note': c['note'],
                'technique': c['technique'],
            })
    m = {
        'version': 1,
        'setup_cmd': f'{PY} -m compileall -q /verif/sa',
        'hooks': {
            'guard': 'HABUTAX_VERIF',
            'enable': 'no hooks are needed: every check reads /repo source files and bundled PDF templates; nothing is built or run',
            'baseline_off_cmd': 'cd /repo && /venv/bin/python -m pytest -ra -q -p no:cacheprovider --timeout=900 --continue-on-collection-errors',
            'source_commits': [],
            'add_only': True,
        },
        'engines': [{
            'name': 'sa', 'path': '/verif/sa',
            'serves_properties': sorted(CLAIMED),
            'kind_free_text': 'repository-specific static analysis: static constructor evaluation into a form catalogue, abstract interpretation of line definitions, CFG/dominator protocol rules on the core, PDF template parsing for table/artifact agreement',
        }],
        'checks': checks,
        'notes': 'Static analysis only: no habutax code is imported or executed by any check. Exit 0 held / 1 VIOLATION / 2 ANALYSIS-ERROR (analyser cannot decide; never a silent pass). See DESIGN.md.',
        'not_applicable': [{'property_id': p, 'reason': NOT_APPLICABLE[p]} for p in props if p not in CLAIMED],
    }
    missing = [p for p in props if p not in CLAIMED and p not in NOT_APPLICABLE]
    assert not missing, missing
    with open(os.path.join(VERIF, 'MANIFEST.json'), 'w') as f:
        json.dump(m, f, indent=1)
    print('claimed', sorted(CLAIMED), 'n/a', sorted(NOT_APPLICABLE))


if __name__ == '__main__':
    import sys
    sys.path.insert(0, os.path.dirname(os.path.abspath(__file__)))
    main()
