"""E1b: per-function control-flow graph over statements and branch tests, with
dominators.  Node kinds: 'entry', 'exit', 'stmt' (simple statement), 'test'
(branch condition), 'T'/'F' (pseudo nodes for the two outcomes of a test),
'iter' (loop header of a for), 'except' (handler entry), 'raise-exit'.

Exceptional flow: every statement inside a try body has an edge to each handler
of that try (and to the finally block); calls outside any try go to 'raise-exit'
only for explicit raise statements (rules that care about implicit raises say
so)."""
import ast

from .src import AnalysisError, unparse


class Node:
    __slots__ = ('id', 'kind', 'ast', 'succ', 'pred', 'label')

    def __init__(self, id_, kind, ast_=None, label=''):
        self.id = id_
        self.kind = kind
        self.ast = ast_
        self.succ = []
        self.pred = []
        self.label = label

    def __repr__(self):
        return f'<{self.id}:{self.kind} {self.label or (unparse(self.ast, 50) if self.ast is not None else "")}>'


class CFG:
    def __init__(self, fn, rel=''):
        self.fn = fn
        self.rel = rel
        self.nodes = []
        self.entry = self.new('entry')
        self.exit = self.new('exit')           # normal return
        self.raise_exit = self.new('raise-exit')
        self.loop_stack = []
        self.try_stack = []                    # list of (handler entry nodes, finally-body or None)
        ends = self.block(fn.body, [self.entry])
        for e in ends:
            self.edge(e, self.exit)
        self._dom = None

    def new(self, kind, ast_=None, label=''):
        n = Node(len(self.nodes), kind, ast_, label)
        self.nodes.append(n)
        return n

    def edge(self, a, b):
        if b not in a.succ:
            a.succ.append(b)
            b.pred.append(a)

    def exc_edges(self, n):
        """statement n may raise: connect to enclosing handlers"""
        if self.try_stack:
            handlers, _fin = self.try_stack[-1]
            for h in handlers:
                self.edge(n, h)

    def block(self, stmts, preds):
        cur = preds
        for st in stmts:
            cur = self.stmt(st, cur)
            if not cur:
                # unreachable code after return/raise: still build it, detached
                pass
        return cur

    def stmt(self, st, preds):
        if isinstance(st, ast.If):
            t = self.new('test', st.test)
            for p in preds:
                self.edge(p, t)
            self.exc_edges(t)
            tn = self.new('T', st.test)
            fn_ = self.new('F', st.test)
            self.edge(t, tn)
            self.edge(t, fn_)
            a = self.block(st.body, [tn])
            b = self.block(st.orelse, [fn_])
            return a + b
        if isinstance(st, (ast.For, ast.While)):
            head = self.new('iter' if isinstance(st, ast.For) else 'test', st.iter if isinstance(st, ast.For) else st.test)
            head.label = 'loop'
            for p in preds:
                self.edge(p, head)
            self.exc_edges(head)
            tn = self.new('T', head.ast, 'loop-body')
            fn_ = self.new('F', head.ast, 'loop-exit')
            self.edge(head, tn)
            self.edge(head, fn_)
            self.loop_stack.append((head, []))
            body_end = self.block(st.body, [tn])
            _, breaks = self.loop_stack.pop()
            for e in body_end:
                self.edge(e, head)
            after = self.block(st.orelse, [fn_])
            return after + breaks
        if isinstance(st, ast.Try):
            handler_entries = [self.new('except', h, unparse(h.type) if h.type is not None else 'bare') for h in st.handlers]
            self.try_stack.append((handler_entries, st.finalbody))
            body_end = self.block(st.body, preds)
            self.try_stack.pop()
            else_end = self.block(st.orelse, body_end)
            ends = list(else_end)
            for h, he in zip(st.handlers, handler_entries):
                ends += self.block(h.body, [he])
            if st.finalbody:
                fin_start = self.new('stmt', None, 'finally')
                for e in ends:
                    self.edge(e, fin_start)
                # exceptional entry into finally (from the body, when no handler matches)
                fin_exc = self.new('stmt', None, 'finally-exc')
                self.try_stack.append(([fin_exc], None))
                self.try_stack.pop()
                fe = self.block(st.finalbody, [fin_start])
                fe2 = self.block(st.finalbody, [fin_exc])
                for e in fe2:
                    self.edge(e, self.raise_exit)
                self._fin_exc = getattr(self, '_fin_exc', []) + [(st, fin_exc)]
                return fe
            return ends
        if isinstance(st, ast.With):
            n = self.new('stmt', st, 'with')
            for p in preds:
                self.edge(p, n)
            self.exc_edges(n)
            return self.block(st.body, [n])
        n = self.new('stmt', st)
        for p in preds:
            self.edge(p, n)
        if isinstance(st, ast.Return):
            self.exc_edges(n)
            self.edge(n, self.exit)
            return []
        if isinstance(st, ast.Raise):
            if self.try_stack:
                self.exc_edges(n)
            else:
                self.edge(n, self.raise_exit)
            return []
        if isinstance(st, ast.Break):
            if self.loop_stack:
                self.loop_stack[-1][1].append(n)
            return []
        if isinstance(st, ast.Continue):
            if self.loop_stack:
                self.edge(n, self.loop_stack[-1][0])
            return []
        if isinstance(st, ast.Assert):
            self.exc_edges(n)
            if not self.try_stack:
                self.edge(n, self.raise_exit)
            return [n]
        self.exc_edges(n)
        return [n]

    # ------------------------------------------------------------ dominators
    def dominators(self):
        if self._dom is not None:
            return self._dom
        reach = set()
        todo = [self.entry]
        while todo:
            n = todo.pop()
            if n.id in reach:
                continue
            reach.add(n.id)
            todo.extend(n.succ)
        ids = [n.id for n in self.nodes if n.id in reach]
        full = set(ids)
        dom = {i: set(full) for i in ids}
        dom[self.entry.id] = {self.entry.id}
        changed = True
        while changed:
            changed = False
            for i in ids:
                if i == self.entry.id:
                    continue
                preds = [p.id for p in self.nodes[i].pred if p.id in reach]
                new = set(full)
                for p in preds:
                    new &= dom[p]
                new = new | {i}
                if new != dom[i]:
                    dom[i] = new
                    changed = True
        self._dom = dom
        self.reachable = reach
        return dom

    def dominates(self, a, b):
        d = self.dominators()
        return b.id in d and a.id in d[b.id]

    def node_of(self, ast_node):
        """CFG node whose statement/test contains ast_node."""
        target = ast_node
        while target is not None:
            for n in self.nodes:
                if n.ast is target and n.kind in ('stmt', 'test', 'iter'):
                    return n
            target = getattr(target, 'parent', None)
        return None

    def branch_facts(self, node):
        """Atomic facts implied at `node` by the branch outcomes that dominate
        it: list of (expr-text, polarity)."""
        facts = []
        for n in self.nodes:
            if n.kind in ('T', 'F') and n.label == '' and self.dominates(n, node):
                facts.extend(implied(n.ast, n.kind == 'T'))
        return facts

    def paths_avoiding(self, src, dst, avoid):
        """Is there a path src -> dst that visits none of `avoid` (node ids)?"""
        seen = set()
        todo = [src]
        while todo:
            n = todo.pop()
            if n.id in seen or n.id in avoid:
                continue
            seen.add(n.id)
            if n is dst:
                return True
            todo.extend(n.succ)
        return False


def implied(test, truth):
    """Atomic facts implied by `test` evaluating to `truth`: [(text, bool)]
    (and: all conjuncts when true; or: all disjuncts false when false)."""
    if isinstance(test, ast.UnaryOp) and isinstance(test.op, ast.Not):
        return implied(test.operand, not truth)
    if isinstance(test, ast.BoolOp):
        if isinstance(test.op, ast.And) and truth:
            return [f for v in test.values for f in implied(v, True)]
        if isinstance(test.op, ast.Or) and not truth:
            return [f for v in test.values for f in implied(v, False)]
        return []
    return [(norm_atom(test), truth)]


def norm_atom(e):
    """Text of an atomic condition, with a few equivalent spellings unified:
    len(x) == 0 / len(x) > 0 / not x."""
    if isinstance(e, ast.Compare) and len(e.ops) == 1 and isinstance(e.left, ast.Call) and unparse(e.left.func) == 'len' \
            and isinstance(e.comparators[0], ast.Constant) and e.comparators[0].value == 0:
        inner = unparse(e.left.args[0])
        if isinstance(e.ops[0], ast.Eq):
            return f'EMPTY({inner})'
        if isinstance(e.ops[0], (ast.Gt, ast.NotEq)):
            return f'NONEMPTY({inner})'
    return unparse(e, 200)
